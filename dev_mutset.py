"""dev helper: run a list of textual mutations against given contract functions; print which obligations fail."""
import sys, subprocess, os, json
sys.path.insert(0, "/verif/.deps"); sys.path.insert(0, "/verif")
import dev_mut, dev_run, io, contextlib
def run(file, muts, mods, fns):
    for i, (old, new) in enumerate(muts):
        dev_mut.mutate(file, old, new)
        buf = io.StringIO()
        try:
            with contextlib.redirect_stdout(buf):
                E, res = dev_run.run(mods, fns, repo="/tmp/mutrepo", verbose=False)
            bad = [r.name.split(":", 2)[-1] + "(" + r.status + ")" for r in res if r.status != "discharged"]
        except Exception as e:
            bad = ["CHECKER-ERROR " + repr(e)[:150]]
        print(f"M{i}: {old.strip().splitlines()[0][:60]!r} -> {new.strip().splitlines()[0][:60] if new.strip() else ''!r}\n     => {'MISSED' if not bad else bad[:6]}")
if __name__ == "__main__":
    spec = json.load(open(sys.argv[1]))
    os.environ["PYVC_FAST"] = "1"
    run(spec["file"], spec["muts"], spec["mods"], spec["fns"])

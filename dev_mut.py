"""dev helper: apply a textual mutation to a scratch copy of /repo/eudoxia and run contracts on it."""
import sys, subprocess, os, shutil
sys.path.insert(0, "/verif/.deps"); sys.path.insert(0, "/verif")
def mutate(file, old, new, root="/tmp/mutrepo"):
    subprocess.run(["rsync", "-a", "--delete", "/repo/eudoxia", root + "/"], check=True)
    p = os.path.join(root, file)
    s = open(p).read()
    assert s.count(old) >= 1, "pattern not found"
    open(p, "w").write(s.replace(old, new, 1))
if __name__ == "__main__":
    file, old, new, mods, *fns = sys.argv[1:]
    mutate(file, old.encode().decode("unicode_escape"), new.encode().decode("unicode_escape"))
    import dev_run
    dev_run.run(mods.split(","), fns, repo="/tmp/mutrepo", verbose=False)

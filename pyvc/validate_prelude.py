"""Bounded validation of the sequence / sum / count prelude (thorough tier; `python -m pyvc.validate_prelude`).

Every prelude axiom is a universally quantified formula over sequences, elements, integers and element->value arrays.
Here each axiom is *interpreted*: sequences are Python tuples, the function symbols are their Python meaning, arrays are
Python dicts, and the body is evaluated for every assignment of the bound variables drawn from small domains (all tuples
of length <= MAXLEN over NELEM element values, integers -1..MAXLEN+1, all arrays into NVAL values).  An axiom that
evaluates to False for some assignment is wrong (or constrains an unspecified value) and is reported with the assignment.
This is bounded evidence about the axioms, not a proof of them; it is listed as such in the evidence."""
from __future__ import annotations
import itertools
import sys
import z3

MAXLEN, NELEM, NVAL = 3, 3, 3
UNSPEC = -99


def _domains(sort, ops):
    if sort == ops.S:
        return [t for n in range(MAXLEN + 1) for t in itertools.product(range(NELEM), repeat=n)]
    if sort == ops.E:
        return list(range(NELEM))
    if sort == z3.IntSort():
        return list(range(-1, MAXLEN + 2))
    if sort == z3.RealSort():
        return list(range(0, NVAL))
    if sort.kind() == z3.Z3_ARRAY_SORT:
        return [dict(zip(range(NELEM), vs)) for vs in itertools.product(range(NVAL), repeat=NELEM)]
    raise ValueError(f"no domain for sort {sort}")


def _remfirst(s, x):
    if x in s:
        i = s.index(x)
        return s[:i] + s[i + 1:]
    return s


class Interp:
    def __init__(self, ops):
        self.ops = ops
        n = str(ops.E)
        self.fn = {
            f"Len_{n}": lambda s: len(s),
            f"At_{n}": lambda s, i: s[i] if 0 <= i < len(s) else UNSPEC,
            f"App_{n}": lambda s, x: s + (x,),
            f"Cat_{n}": lambda s, t: s + t,
            f"Take_{n}": lambda s, k: s[:max(0, k)],
            f"Drop_{n}": lambda s, k: s[max(0, k):],
            f"RemFirst_{n}": _remfirst,
            f"Mem_{n}": lambda s, x: x in s,
            f"NoDup_{n}": lambda s: len(set(s)) == len(s),
            f"IdxOf_{n}": lambda s, x: s.index(x) if x in s else UNSPEC,
        }
        for key, f in ops.sum_fns.items():
            self.fn[f.name()] = lambda s, m: sum(m[x] for x in s)
        for key, (f, w) in ops.cnt_fns.items():
            self.fn[f.name()] = lambda s, m, v: sum(1 for x in s if m[x] == v)
            self.fn[w.name()] = lambda s, m, v: next((x for x in s if m[x] != v), 0)

    def ev(self, e, env):
        if z3.is_const(e) and e.decl().kind() == z3.Z3_OP_UNINTERPRETED:
            nm = str(e)
            if nm in env:
                return env[nm]
            if nm.startswith("Empty_"):
                return ()
            raise ValueError(f"free constant {nm}")
        if z3.is_int_value(e):
            return e.as_long()
        if z3.is_rational_value(e):
            return e.numerator_as_long() / e.denominator_as_long()
        if z3.is_true(e):
            return True
        if z3.is_false(e):
            return False
        k = e.decl().kind()
        a = e.children()
        if k == z3.Z3_OP_AND:
            return all(self.ev(c, env) for c in a)
        if k == z3.Z3_OP_OR:
            return any(self.ev(c, env) for c in a)
        if k == z3.Z3_OP_NOT:
            return not self.ev(a[0], env)
        if k == z3.Z3_OP_IMPLIES:
            return (not self.ev(a[0], env)) or self.ev(a[1], env)
        if k in (z3.Z3_OP_EQ, z3.Z3_OP_IFF):
            return self.ev(a[0], env) == self.ev(a[1], env)
        if k == z3.Z3_OP_DISTINCT:
            vs = [self.ev(c, env) for c in a]
            return len(set(map(repr, vs))) == len(vs)
        if k == z3.Z3_OP_ITE:
            return self.ev(a[1], env) if self.ev(a[0], env) else self.ev(a[2], env)
        if k == z3.Z3_OP_LE:
            return self.ev(a[0], env) <= self.ev(a[1], env)
        if k == z3.Z3_OP_LT:
            return self.ev(a[0], env) < self.ev(a[1], env)
        if k == z3.Z3_OP_GE:
            return self.ev(a[0], env) >= self.ev(a[1], env)
        if k == z3.Z3_OP_GT:
            return self.ev(a[0], env) > self.ev(a[1], env)
        if k == z3.Z3_OP_ADD:
            return sum(self.ev(c, env) for c in a)
        if k == z3.Z3_OP_SUB:
            v = self.ev(a[0], env)
            for c in a[1:]:
                v -= self.ev(c, env)
            return v
        if k == z3.Z3_OP_UMINUS:
            return -self.ev(a[0], env)
        if k == z3.Z3_OP_MUL:
            v = 1
            for c in a:
                v *= self.ev(c, env)
            return v
        if k == z3.Z3_OP_TO_REAL:
            return self.ev(a[0], env)
        if k == z3.Z3_OP_SELECT:
            m, x = self.ev(a[0], env), self.ev(a[1], env)
            return m.get(x, 0)
        if k == z3.Z3_OP_STORE:
            m = dict(self.ev(a[0], env))
            m[self.ev(a[1], env)] = self.ev(a[2], env)
            return m
        if k == z3.Z3_OP_UNINTERPRETED:
            f = self.fn.get(e.decl().name())
            if f is None:
                raise ValueError(f"no interpretation for {e.decl().name()}")
            return f(*[self.ev(c, env) for c in a])
        raise ValueError(f"operator {e.decl()} not interpreted")


def validate(ops, max_cases=400000):
    """returns (n_axioms, n_instances, failures[(axiom text, assignment)])"""
    it = Interp(ops)
    failures, total = [], 0
    axs = ops.axioms()
    for ax in axs:
        if not z3.is_quantifier(ax):
            total += 1
            if not it.ev(ax, {}):
                failures.append((str(ax)[:200], {}))
            continue
        names = [ax.var_name(i) for i in range(ax.num_vars())]
        sorts = [ax.var_sort(i) for i in range(ax.num_vars())]
        consts = [z3.Const(f"v!{nm}!{i}", so) for i, (nm, so) in enumerate(zip(names, sorts))]
        body = z3.substitute_vars(ax.body(), *reversed(consts))
        doms = [_domains(so, ops) for so in sorts]
        size = 1
        for d in doms:
            size *= len(d)
        # thin the largest domains deterministically if the product is too big
        step = 1
        while size // step > max_cases:
            step += 1
        bad = None
        for n, vals in enumerate(itertools.product(*doms)):
            if n % step:
                continue
            total += 1
            env = {str(c): v for c, v in zip(consts, vals)}
            try:
                ok = it.ev(body, env)
            except ValueError as e:
                bad = (f"NOT-INTERPRETED {e}: " + str(ax)[:160], {})
                break
            if not ok:
                bad = (str(ax)[:300], {nm: v for nm, v in zip(names, vals)})
                break
        if bad:
            failures.append(bad)
    return len(axs), total, failures


def filter_sum_lemma():
    """the lemma assumed for list comprehensions with a filter: Sum(filter(P, s), m) = Sum(s, m*[P]), |filter(P, s)| = Sum(s, [P])"""
    n = 0
    for ln in range(MAXLEN + 2):
        for s in itertools.product(range(NELEM), repeat=ln):
            for pv in itertools.product([False, True], repeat=NELEM):
                r = tuple(x for x in s if pv[x])
                for mv in itertools.product(range(NVAL), repeat=NELEM):
                    n += 1
                    if sum(mv[x] for x in r) != sum(mv[x] if pv[x] else 0 for x in s) or len(r) != sum(1 if pv[x] else 0 for x in s):
                        return n, (s, pv, mv)
    return n, None


def _mk_ops():
    from .prelude import SeqOps
    ops = SeqOps(z3.DeclareSort("VElem"), z3.DeclareSort("VSeq"))
    ops.Sum(z3.IntSort())
    ops.Sum(z3.RealSort())
    ops.Cnt(z3.IntSort())
    return ops


def _worker(args):
    k, procs = args
    ops = _mk_ops()
    axs = ops.axioms()
    mine = [a for i, a in enumerate(axs) if i % procs == k]
    ops.axioms = lambda: mine
    n_ax, n_inst, failures = validate(ops)
    return n_ax, n_inst, [(a, str(v)) for a, v in failures]


def run(procs=12):
    import multiprocessing as mp
    with mp.get_context("fork").Pool(procs) as pool:
        parts = pool.map(_worker, [(k, procs) for k in range(procs)])
    n_ax = sum(p[0] for p in parts)
    n_inst = sum(p[1] for p in parts)
    failures = [f for p in parts for f in p[2]]
    n_f, bad_f = filter_sum_lemma()
    return {"axioms": n_ax, "instances": n_inst + n_f, "failures": [{"axiom": a, "assignment": v} for a, v in failures] +
            ([{"axiom": "filter-sum lemma", "assignment": str(bad_f)}] if bad_f else []),
            "bound": f"sequences of length <= {MAXLEN} over {NELEM} element values, integers -1..{MAXLEN + 1}, arrays into {NVAL} values"}


def cached(cache_dir):
    """result for the current prelude source (recomputed only when pyvc/prelude.py or this file changes)"""
    import hashlib, json, os
    here = os.path.dirname(os.path.abspath(__file__))
    h = hashlib.sha256()
    for f in ("prelude.py", "validate_prelude.py"):
        h.update(open(os.path.join(here, f), "rb").read())
    path = os.path.join(cache_dir, f"prelude-validation-{h.hexdigest()[:16]}.json")
    if os.path.exists(path):
        return json.load(open(path))
    res = run()
    os.makedirs(cache_dir, exist_ok=True)
    json.dump(res, open(path, "w"))
    return res


if __name__ == "__main__":
    import json
    res = run()
    print(json.dumps(res, indent=1)[:4000])
    sys.exit(1 if res["failures"] else 0)

"""Mechanical, syntactic frame scans over the whole of /repo/eudoxia (run on every check).

They make the "only these functions write this state" half of a representation-invariant argument
mechanical: a new writer anywhere is a failed `scan` obligation of the owning property."""
from __future__ import annotations
import ast
from .program import Program


class ScanResult:
    def __init__(self, name, ok, detail, tags=()):
        self.name, self.ok, self.detail, self.tags = name, ok, detail, tuple(tags)


def _functions(prog: Program):
    """(qname, FunctionDef) for every function/method, plus ('<module>', module) for module-level code."""
    for q, fn in prog.funcs.items():
        yield q, fn


def _enclosing(prog: Program):
    """node id -> qname for every statement inside a function"""
    owner = {}
    for q, fn in prog.funcs.items():
        for n in ast.walk(fn):
            owner.setdefault(id(n), q)
    return owner


def attr_stores(prog: Program, names: set[str]):
    """All (qname, lineno, attr) where `<expr>.attr = ...`, `<expr>.attr += ...`, `<expr>.attr[...] = ...`,
    `del <expr>.attr[...]` or a mutating method call on `<expr>.attr` occurs."""
    out = []
    mutators = {"append", "remove", "pop", "extend", "insert", "clear", "sort", "update", "setdefault", "add", "discard", "popitem"}
    for mod, tree in prog.modules.items():
        owner = {}
        for q, fn in prog.funcs.items():
            if q.startswith(mod + ":"):
                for n in ast.walk(fn):
                    owner[id(n)] = q
        for n in ast.walk(tree):
            tgts = []
            if isinstance(n, ast.Assign):
                tgts = n.targets
            elif isinstance(n, (ast.AugAssign, ast.AnnAssign)):
                tgts = [n.target]
            elif isinstance(n, ast.Delete):
                tgts = n.targets
            for t in tgts:
                for sub in ast.walk(t) if isinstance(t, (ast.Tuple, ast.List)) else [t]:
                    base = sub
                    while isinstance(base, ast.Subscript):
                        base = base.value
                    if isinstance(base, ast.Attribute) and base.attr in names:
                        out.append((owner.get(id(n), mod + ":<module>"), n.lineno, base.attr))
            if isinstance(n, ast.Call) and isinstance(n.func, ast.Attribute) and n.func.attr in mutators:
                base = n.func.value
                while isinstance(base, ast.Subscript):
                    base = base.value
                if isinstance(base, ast.Attribute) and base.attr in names:
                    out.append((owner.get(id(n), mod + ":<module>"), n.lineno, base.attr))
    return out


def scan_writers(prog: Program, name: str, fields: set[str], allowed: set[str], tags=()):
    bad = [(q, ln, a) for q, ln, a in attr_stores(prog, fields) if short(q) not in allowed]
    return ScanResult(f"scan:{name}", not bad,
                      "writers outside the allowed set: " + ", ".join(f"{short(q)}:{ln} ({a})" for q, ln, a in bad) if bad
                      else f"only {sorted(allowed)} write {sorted(fields)}", tags)


def short(q: str) -> str:
    return q.split(":", 1)[1] if ":" in q else q


def transition_sites(prog: Program):
    """(qname, lineno, target state name or '?') for every call `<x>.transition(...)`"""
    out = []
    for q, fn in prog.funcs.items():
        if q in getattr(prog, "synthetic", ()):
            continue
        for n in ast.walk(fn):
            if isinstance(n, ast.Call) and isinstance(n.func, ast.Attribute) and n.func.attr == "transition":
                args = list(n.args) + [k.value for k in n.keywords]
                tgt = "?"
                for a in args:
                    if isinstance(a, ast.Attribute) and isinstance(a.value, ast.Name) and a.value.id == "OperatorState":
                        tgt = a.attr
                out.append((q, n.lineno, tgt))
    return out


def scan_transitions(prog: Program, allowed: dict[str, set[str]], tags=()):
    """allowed: target state -> set of short function names that may request it ('?' = forwarded argument)."""
    bad = []
    for q, ln, tgt in transition_sites(prog):
        if short(q) not in allowed.get(tgt, set()):
            bad.append(f"{short(q)}:{ln} -> {tgt}")
    return ScanResult("scan:transition-call-sites", not bad,
                      "unexpected transition request sites: " + ", ".join(bad) if bad else
                      "transition requests only at: " + "; ".join(f"{k}: {sorted(v)}" for k, v in allowed.items()), tags)


def scan_constructions(prog: Program, cls: str, allowed_modules: set[str], tags=()):
    bad = []
    for q, fn in prog.funcs.items():
        if q in getattr(prog, "synthetic", ()):
            continue
        for n in ast.walk(fn):
            if isinstance(n, ast.Call) and isinstance(n.func, ast.Name) and n.func.id == cls:
                if q.split(":")[0] not in allowed_modules:
                    bad.append(f"{short(q)}:{n.lineno}")
    return ScanResult(f"scan:{cls}-constructions", not bad,
                      f"{cls}(...) constructed outside {sorted(allowed_modules)}: " + ", ".join(bad) if bad
                      else f"{cls}(...) is constructed only in {sorted(allowed_modules)}", tags)


def scan_immutables(prog: Program, spec, tags=()):
    """A field declared immutable in the sidecar schema is assigned only as `self.f = ...` inside the
    constructor of its class (or a base-class constructor), at most once per path syntactically
    (never inside a loop), and `owned` container fields are assigned from a freshly built container."""
    problems = []
    by_field: dict[str, list[str]] = {}
    for cls, d in spec.classes.items():
        for f, (t, imm) in d["fields"].items():
            if imm:
                by_field.setdefault(f, []).append(cls)
    fresh_makers = (ast.List, ast.Dict, ast.Set, ast.ListComp, ast.DictComp, ast.SetComp)
    for mod, tree in prog.modules.items():
        for q, fn in prog.funcs.items():
            if not q.startswith(mod + ":") or q in getattr(prog, "synthetic", ()):
                continue
            name = q.split(":")[1]
            cls = name.split(".")[0] if "." in name else None
            is_init = name.endswith(".__init__")
            loops = [n for n in ast.walk(fn) if isinstance(n, (ast.For, ast.While))]
            in_loop = set()
            for l in loops:
                for n in ast.walk(l):
                    in_loop.add(id(n))
            for n in ast.walk(fn):
                tgts = []
                if isinstance(n, ast.Assign):
                    tgts = [(t, n.value) for t in n.targets]
                elif isinstance(n, ast.AnnAssign) and n.value is not None:
                    tgts = [(n.target, n.value)]
                elif isinstance(n, ast.AugAssign):
                    tgts = [(n.target, None)]
                for t, val in tgts:
                    if not isinstance(t, ast.Attribute) or t.attr not in by_field:
                        continue
                    owners = by_field[t.attr]
                    # which declared class could this be? constructor of that class or of a subclass
                    ok_ctx = is_init and isinstance(t.value, ast.Name) and t.value.id == "self" and cls is not None \
                        and any(o in prog.mro(cls) for o in owners)
                    if not ok_ctx:
                        # a store to a same-named field of an unrelated class is fine if that class does not declare it immutable
                        if cls is not None and isinstance(t.value, ast.Name) and t.value.id == "self" \
                                and not any(o in prog.mro(cls) for o in owners):
                            continue
                        if isinstance(t.value, ast.Name) and t.value.id == "s":
                            continue   # scheduler scratch attributes on the Scheduler object (not under a schema that marks them immutable)
                        problems.append(f"{short(q)}:{n.lineno} writes immutable field .{t.attr}")
                        continue
                    if id(n) in in_loop or isinstance(n, ast.AugAssign):
                        problems.append(f"{short(q)}:{n.lineno} assigns immutable field .{t.attr} inside a loop / augmented")
                    for o in owners:
                        if o in prog.mro(cls) and t.attr in spec.classes[o].get("owned", ()):
                            fresh = isinstance(val, fresh_makers) or (isinstance(val, ast.Call) and isinstance(val.func, ast.Name)
                                                                      and val.func.id in ("list", "dict", "set", "defaultdict")) \
                                or (isinstance(val, ast.Call) and ast.unparse(val.func) == "uuid.uuid4")   # A-UUID: fresh identifier
                            if not fresh:
                                problems.append(f"{short(q)}:{n.lineno} owned field .{t.attr} is not initialised with a fresh container")
    return ScanResult("scan:immutable-fields", not problems,
                      "; ".join(problems) if problems else "every field the schema marks immutable/owned is assigned once, in its constructor", tags)


def scan_no_eq_hash(prog: Program, tags=()):
    bad = [short(q) for q in prog.funcs if q.endswith(".__eq__") or q.endswith(".__hash__")]
    return ScanResult("scan:identity-equality", not bad,
                      "classes overriding __eq__/__hash__: " + ", ".join(bad) if bad else
                      "no class overrides __eq__/__hash__ (objects compare and hash by identity)", tags)

"""Run-time monitors: the sidecar contracts wrapped around the REAL functions of the repository."""
from __future__ import annotations
import functools
import importlib
import inspect
import sys
import types
from .spec import split_tags
from .native_eval import Evaluator, Snapshot, Skip


class Violation(Exception):
    pass


class Monitor:
    def __init__(self, S, repo: str):
        self.S = S
        self.repo = repo
        if repo not in sys.path:
            sys.path.insert(0, repo)
        import logging
        logging.disable(logging.CRITICAL)
        for m in [m for m in sys.modules if m == "eudoxia" or m.startswith("eudoxia.")]:
            del sys.modules[m]
        self.mods = {}
        ns = {}
        for name in ["eudoxia.utils", "eudoxia.utils.consts", "eudoxia.utils.dag", "eudoxia.workload.runtime_status",
                     "eudoxia.workload.pipeline", "eudoxia.workload.workload", "eudoxia.workload.csv_io",
                     "eudoxia.executor.assignment", "eudoxia.executor.container", "eudoxia.executor.resource_pool",
                     "eudoxia.executor.executor", "eudoxia.scheduler.waiting_queue", "eudoxia.scheduler.scheduler",
                     "eudoxia.scheduler.naive", "eudoxia.scheduler.overbook", "eudoxia.scheduler.priority",
                     "eudoxia.scheduler.priority_pool", "eudoxia.simulator"]:
            try:
                m = importlib.import_module(name)
            except Exception:
                continue
            self.mods[name] = m
            for k, v in vars(m).items():
                if not k.startswith("__"):
                    ns.setdefault(k, v)
        import types as _t
        ns["TickGen"] = _t.GeneratorType
        import uuid as _uuid
        ns["UUID"] = _uuid.UUID
        self.ns = ns
        self.ev = Evaluator(S, ns)
        self.violations: list[dict] = []
        self.stats = {"calls": 0, "pre_true": 0, "pre_false": 0, "pre_unknown": 0, "clauses_checked": 0, "clauses_skipped": 0}
        self.installed: dict[str, object] = {}
        self.depth = 0
        self.max_depth = int(__import__("os").environ.get("NATIVE_DEPTH", "1"))
        self.max_violations = 5
        # instance registries for every('<Class>') (weak: scenario garbage disappears)
        import weakref
        self.registry = {}
        for cname in S.classes:
            cls = ns.get(cname)
            if isinstance(cls, type) and "__init__" in cls.__dict__ and str(getattr(cls, "__module__", "")).startswith("eudoxia"):
                reg = weakref.WeakSet()
                self.registry[cname] = reg
                orig = cls.__dict__["__init__"]

                def make(orig, reg):
                    @functools.wraps(orig)
                    def init(self_, *a, **k):
                        try:
                            reg.add(self_)
                        except TypeError:
                            pass
                        return orig(self_, *a, **k)
                    return init
                cls.__init__ = make(orig, reg)
        self.ev.registry = self.registry
        self.eudoxia_classes = [v for v in ns.values() if isinstance(v, type) and str(getattr(v, "__module__", "")).startswith("eudoxia")]

    # -------------------------------------------------------------------------------------------
    def resolve(self, q):
        mod, _, name = q.partition(":")
        m = self.mods.get(mod) or importlib.import_module(mod)
        obj = m
        parts = name.split(".")
        for p in parts[:-1]:
            obj = getattr(obj, p)
        return obj, parts[-1]

    def install(self, qnames=None):
        for q, c in self.S.fns.items():
            if qnames is not None and q not in qnames:
                continue
            if ":" not in q or q.split(":")[0] in ("next_of", "iter_of", "list_of", "ext"):
                continue
            if c.gen:
                continue
            try:
                owner, attr = self.resolve(q)
                raw = owner.__dict__[attr] if isinstance(owner, type) else getattr(owner, attr)
            except Exception:
                continue
            if isinstance(raw, (staticmethod, classmethod, property)):
                continue
            fn = raw
            wrapper = self.wrap(q, c, fn)
            setattr(owner, attr, wrapper)
            self.installed[q] = (owner, attr, fn)
            # schedulers are looked up through the decorator registry, which holds the original function object
            try:
                dec = importlib.import_module("eudoxia.scheduler.decorators")
                for table in (dec.SCHEDULING_ALGOS, dec.INIT_ALGOS):
                    for k, v in list(table.items()):
                        if v is fn:
                            table[k] = wrapper
                            self.registry_patches = getattr(self, "registry_patches", []) + [(table, k, fn)]
            except Exception:
                pass

    def uninstall(self):
        for q, (owner, attr, fn) in self.installed.items():
            setattr(owner, attr, fn)
        for table, k, fn in getattr(self, "registry_patches", []):
            table[k] = fn
        self.installed = {}

    def wrap(self, q, c, fn):
        sig = inspect.signature(fn)
        mon = self

        @functools.wraps(fn)
        def wrapper(*args, **kwargs):
            mon.stats["calls"] += 1
            if mon.depth > mon.max_depth:
                return fn(*args, **kwargs)
            mon.depth += 1
            try:
                return guarded(*args, **kwargs)
            finally:
                mon.depth -= 1

        def guarded(*args, **kwargs):
            try:
                ba = sig.bind(*args, **kwargs)
                ba.apply_defaults()
                env = dict(ba.arguments)
                env.pop("kwargs", None)
            except TypeError:
                return fn(*args, **kwargs)
            pre = True
            for r in c.requires:
                try:
                    if not mon.ev.eval(r, env):
                        pre = False
                        break
                except Skip:
                    pre = None
                    break
                except Exception:
                    pre = None
                    break
            mon.stats["pre_true" if pre else ("pre_false" if pre is False else "pre_unknown")] += 1
            if not pre:
                return fn(*args, **kwargs)
            is_init = q.endswith(".__init__")
            try:
                roots = [v for k, v in env.items() if not (is_init and k == "self")]
                snap = Snapshot(roots, mon.eudoxia_classes)
            except Exception:
                snap = None
            try:
                res = fn(*args, **kwargs)
            except Exception as e:
                exc = type(e).__name__
                if exc in c.raises:
                    mon.check(q, c, c.raises[exc], env, snap, f"raises:{exc}")
                else:
                    mon.record(q, f"noraise:{exc}", f"unexpected {exc}: {e}", env, c.owners)
                raise
            env2 = dict(env)
            env2["result"] = res
            mon.check(q, c, c.ensures, env2, snap, "post", labels=True)
            if c.native_ensures:
                mon.check(q, c, [e for _l, e in c.native_ensures], env2, snap, "native-post", names=[l for l, _e in c.native_ensures])
            return res
        return wrapper

    def check(self, q, c, clauses, env, snap, kind, labels=False, names=None):
        for i, cl in enumerate(clauses):
            tags, body = split_tags(cl)
            label = names[i] if names else (c.label(i) if labels else str(i))
            try:
                ok = self.ev.eval(body, env, snap)
                self.stats["clauses_checked"] += 1
            except Skip:
                self.stats["clauses_skipped"] += 1
                continue
            except Exception:
                self.stats["clauses_skipped"] += 1
                self.stats["clauses_errors"] = self.stats.get("clauses_errors", 0) + 1
                continue
            if not ok:
                self.record(q, f"{kind}:{label}", body, env, tags if tags is not None else c.owners)

    def record(self, q, label, clause, env, tags):
        from .engine import short
        if len(self.violations) >= self.max_violations:
            return
        def rep(v):
            try:
                r = repr(v)
            except Exception:
                r = f"<{type(v).__name__}>"
            return r[:160]
        self.violations.append({"obligation": f"{short(q)}:{label}", "clause": clause[:400], "tags": list(tags or ()),
                                "args": {k: rep(v) for k, v in list(env.items())[:6]}})

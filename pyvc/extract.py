"""Mechanical extraction of a statement block of a real function into a synthetic function under contract.

Used where a function mixes the logic of interest with file I/O the verifier does not model (tools.snap_command):
the statements are taken verbatim from the current AST on every run; what is dropped is stated in the evidence."""
from __future__ import annotations
import ast
import copy


def _yield_rewriter(yields_to):
    class Y(ast.NodeTransformer):
        def visit_FunctionDef(self, n):
            return n
        def visit_Expr(self, n):
            if isinstance(n.value, ast.Yield) and n.value.value is not None:
                call = ast.Call(func=ast.Attribute(value=ast.Name(id=yields_to, ctx=ast.Load()), attr="append", ctx=ast.Load()),
                                args=[n.value.value], keywords=[])
                return ast.copy_location(ast.Expr(value=call), n)
            return n
    return Y()


def extract_block(prog, qname: str, new_name: str, start_pred, n_stmts_pred, params: list[str], result: str, yields_to: str | None = None):
    """Find, inside function `qname`, the first statement list in which `start_pred(stmt)` holds for some statement;
    take statements from there while `n_stmts_pred(stmt)`; wrap them as `def new_name(params): ...; return result`.
    With `yields_to`, a statement `yield e` of the block becomes `<yields_to>.append(e)` (as in extract_loop_body)."""
    fn = prog.func(qname)
    found = None
    for node in ast.walk(fn):
        for field in ("body", "orelse"):
            stmts = getattr(node, field, None)
            if isinstance(stmts, list):
                for i, s in enumerate(stmts):
                    if isinstance(s, ast.stmt) and start_pred(s):
                        j = i
                        while j < len(stmts) and n_stmts_pred(stmts[j]):
                            j += 1
                        found = stmts[i:j]
                        break
            if found:
                break
        if found:
            break
    if not found:
        raise KeyError(f"extraction from {qname}: block not found (contract attachment lost)")
    return register_block(prog, qname, new_name, found, params, result, yields_to)


def stores_of(stmt):
    """names a statement may bind, and whether it writes anything else (attributes, subscripts) or leaves the block"""
    names, other = set(), False
    for x in ast.walk(stmt):
        if isinstance(x, ast.Name) and isinstance(x.ctx, (ast.Store, ast.Del)):
            names.add(x.id)
        elif isinstance(x, (ast.Attribute, ast.Subscript)) and isinstance(x.ctx, (ast.Store, ast.Del)):
            other = True
        elif isinstance(x, (ast.Return, ast.Raise, ast.Break, ast.Continue, ast.Yield, ast.YieldFrom, ast.Global, ast.Nonlocal)):
            other = True
    return names, other


def reads_of(nodes):
    return {x.id for n in nodes for x in ast.walk(n) if isinstance(x, ast.Name) and isinstance(x.ctx, ast.Load)}


def register_block(prog, qname: str, new_name: str, found, params: list[str], result: str, yields_to: str | None = None):
    """wrap the given statements (taken from the current AST of `qname`) as `def new_name(params): ...; return result`"""
    body = [copy.deepcopy(s) for s in found]
    if yields_to:
        body = [_yield_rewriter(yields_to).visit(s) for s in body]
        if any(isinstance(x, (ast.Yield, ast.YieldFrom)) for st in body for x in ast.walk(st)):
            raise KeyError(f"extraction from {qname}: a yield of the block is not a plain `yield e` statement (contract attachment lost)")
    body = body + [ast.Return(value=ast.parse(result, mode="eval").body)]
    f = ast.FunctionDef(name=new_name, args=ast.arguments(posonlyargs=[], args=[ast.arg(arg=p) for p in params], kwonlyargs=[],
                                                          kw_defaults=[], defaults=[]), body=body, decorator_list=[], type_params=[])
    ast.fix_missing_locations(f)
    mod = qname.split(":")[0]
    q = f"{mod}:{new_name}"
    prog.funcs[q] = f
    if not hasattr(prog, 'synthetic'):
        prog.synthetic = set()
    prog.synthetic.add(q)     # a copy of statements that are scanned in place, inside the function they come from
    prog.sources[mod + "$" + new_name] = "\n".join(ast.unparse(s) for s in found)
    return q, [ast.unparse(s) for s in found]


def extract_loop_body(prog, qname: str, new_name: str, loop_pred, params: list[str], outs: list[str] | None = None,
                      yields_to: str | None = None):
    """The body of the first `for` loop of `qname` satisfying `loop_pred`, as a function of one iteration.

    The statements are deep copies of the current AST.  The only rewriting is the one that turns "one iteration of a loop"
    into "one call": a `continue` / `break` that belongs to THIS loop (not to a loop nested inside it) becomes
    `return 'continue'` / `return 'break'`, and falling off the end becomes `return 'next'`.  The loop variable is a parameter.

    Two further mechanical rewritings, used for loops of generator functions that carry state in rebound locals:
    `outs` - the locals the iteration rebinds are returned with the verdict (`return ('next', out1, out2)`), they are parameters too;
    `yields_to` - a statement `yield e` of THIS loop's body becomes `<yields_to>.append(e)`: the values the generator hands out
    during the iteration, in order, appended to a list parameter (the consumer's interleaving is not modelled)."""
    fn = prog.func(qname)
    target = None
    for node in ast.walk(fn):
        if isinstance(node, ast.For) and loop_pred(node):
            target = node
            break
    if target is None:
        raise KeyError(f"extraction from {qname}: loop not found (contract attachment lost)")

    class T(ast.NodeTransformer):
        def visit_For(self, n):
            return n          # a nested loop keeps its own break/continue
        def visit_While(self, n):
            return n
        def visit_FunctionDef(self, n):
            return n
        def visit_Continue(self, n):
            return ast.copy_location(ast.Return(value=verdict("continue")), n)
        def visit_Break(self, n):
            return ast.copy_location(ast.Return(value=verdict("break")), n)
        def visit_Expr(self, n):
            if yields_to and isinstance(n.value, ast.Yield) and n.value.value is not None:
                call = ast.Call(func=ast.Attribute(value=ast.Name(id=yields_to, ctx=ast.Load()), attr="append", ctx=ast.Load()),
                                args=[n.value.value], keywords=[])
                return ast.copy_location(ast.Expr(value=call), n)
            return n

    def verdict(word):
        if not outs:
            return ast.Constant(value=word)
        return ast.Tuple(elts=[ast.Constant(value=word)] + [ast.Name(id=o, ctx=ast.Load()) for o in outs], ctx=ast.Load())

    body = [T().visit(copy.deepcopy(s)) for s in target.body] + [ast.Return(value=verdict("next"))]
    if yields_to and any(isinstance(x, (ast.Yield, ast.YieldFrom)) for st in body for x in ast.walk(st)):
        raise KeyError(f"extraction from {qname}: a yield of the loop body is not a plain `yield e` statement (contract attachment lost)")
    f = ast.FunctionDef(name=new_name, args=ast.arguments(posonlyargs=[], args=[ast.arg(arg=p) for p in params], kwonlyargs=[],
                                                          kw_defaults=[], defaults=[]), body=body, decorator_list=[], type_params=[])
    ast.fix_missing_locations(f)
    mod = qname.split(":")[0]
    q = f"{mod}:{new_name}"
    prog.funcs[q] = f
    if not hasattr(prog, "synthetic"):
        prog.synthetic = set()
    prog.synthetic.add(q)
    prog.sources[mod + "$" + new_name] = "\n".join(ast.unparse(s) for s in target.body)
    return q, [ast.unparse(s) for s in target.body]

"""Static type tags used by the symbolic executor and their z3 sorts."""
from __future__ import annotations
from dataclasses import dataclass
import z3


@dataclass(frozen=True)
class T:
    kind: str
    args: tuple = ()

    def __repr__(self):
        if not self.args:
            return self.kind
        return f"{self.kind}[{','.join(map(str, self.args))}]"


INT = T("int")
REAL = T("real")
BOOL = T("bool")
STR = T("str")
NONE = T("none")


def Ref(cls: str) -> T: return T("ref", (cls,))
def Enum(name: str) -> T: return T("enum", (name,))
def List(e: T) -> T: return T("list", (e,))
def Dict(k: T, v: T) -> T: return T("dict", (k, v))
def DefaultDict(k: T, v: T) -> T: return T("dict", (k, v, "default0"))
def Set(k: T) -> T: return T("set", (k,))
def Tuple(*ts: T) -> T: return T("tuple", tuple(ts))
def Opt(t: T) -> T: return T("opt", (t,))
def Iter(e: T) -> T: return T("iter", (e,))     # list iterator object (source list ref, position)
def SeqV(e: T) -> T: return T("seqv", (e,))     # immutable sequence *value* (spec level)
def Fn(name: str) -> T: return T("fn", (name,))  # function object (scaling funcs)


RefSort = z3.DeclareSort("Ref")
StrSort = z3.DeclareSort("Str")
null = z3.Const("null", RefSort)

_enum_sorts: dict[str, tuple] = {}
_seq_sorts: dict[str, z3.SortRef] = {}
_tuple_sorts: dict[tuple, tuple] = {}
_opt_sorts: dict[str, tuple] = {}
_str_lits: dict[str, z3.ExprRef] = {}


def declare_enum(name: str, members: list[str]):
    if name in _enum_sorts:
        assert _enum_sorts[name][2] == list(members), f"enum {name} redeclared differently"
        return _enum_sorts[name]
    sort, consts = z3.EnumSort(name, list(members))
    _enum_sorts[name] = (sort, dict(zip(members, consts)), list(members))
    return _enum_sorts[name]


def enum_member(name: str, member: str):
    return _enum_sorts[name][1][member]


def enum_members(name: str) -> list[str]:
    return _enum_sorts[name][2]


def sort_key(t: T) -> str:
    """Name of the z3 sort of t (lists/dicts/sets/refs all share Ref)."""
    return str(zsort(t))


def zsort(t: T) -> z3.SortRef:
    k = t.kind
    if k == "int": return z3.IntSort()
    if k == "real": return z3.RealSort()
    if k == "bool": return z3.BoolSort()
    if k == "str": return StrSort
    if k in ("ref", "list", "dict", "set", "iter", "none"): return RefSort
    if k == "fn": return RefSort
    if k == "enum": return _enum_sorts[t.args[0]][0]
    if k == "seqv": return seq_sort(t.args[0])
    if k == "tuple":
        return tuple_sort(t)[0]
    if k == "arr":
        return z3.ArraySort(zsort(t.args[0]), zsort(t.args[1]))
    if k == "opt":
        return opt_sort(t.args[0])[0]
    raise TypeError(f"no sort for {t}")


def seq_sort(e: T) -> z3.SortRef:
    key = sort_key(e)
    if key not in _seq_sorts:
        _seq_sorts[key] = z3.DeclareSort(f"Seq_{key}")
    return _seq_sorts[key]


def tuple_sort(t: T):
    key = tuple(sort_key(a) for a in t.args)
    if key not in _tuple_sorts:
        nm = "Tup_" + "_".join(safe_ident(k) for k in key)
        dt = z3.Datatype(nm)
        dt.declare("mk_" + nm, *[(f"f{i}_{nm}", zsort(a)) for i, a in enumerate(t.args)])
        dt = dt.create()
        _tuple_sorts[key] = (dt, dt.constructor(0), [dt.accessor(0, i) for i in range(len(key))])
    return _tuple_sorts[key]


def opt_sort(e: T):
    key = sort_key(e)
    if key not in _opt_sorts:
        nm = "Opt_" + safe_ident(key)
        dt = z3.Datatype(nm)
        dt.declare("none_" + nm)
        dt.declare("some_" + nm, ("val_" + nm, zsort(e)))
        dt = dt.create()
        _opt_sorts[key] = (dt, dt.constructor(0)(), dt.constructor(1), dt.accessor(1, 0), dt.recognizer(0))
    return _opt_sorts[key]


def safe_ident(s: str) -> str:
    import re
    return re.sub(r"[^A-Za-z0-9_]", "_", s)


def safe_name(s: str) -> str:
    import hashlib, re
    return re.sub(r"[^A-Za-z0-9_]", "_", s)[:40] + "_" + hashlib.sha1(s.encode()).hexdigest()[:8]


def str_lit(s: str) -> z3.ExprRef:
    if s not in _str_lits:
        _str_lits[s] = z3.Const("str_" + safe_name(s), StrSort)
    return _str_lits[s]


def str_distinct_axiom():
    lits = list(_str_lits.values())
    if len(lits) < 2:
        return []
    return [z3.Distinct(*lits)]


def is_reflike(t: T) -> bool:
    return t.kind in ("ref", "list", "dict", "set", "iter", "fn", "none")


def is_num(t: T) -> bool:
    return t.kind in ("int", "real")

"""Loads the real source of /repo/eudoxia on every run and indexes it for the VC generator."""
from __future__ import annotations
import ast
import hashlib
import os
from . import ty


class Program:
    def __init__(self, root: str, package: str = "eudoxia"):
        self.root = root
        self.package = package
        self.modules: dict[str, ast.Module] = {}
        self.sources: dict[str, str] = {}
        self.paths: dict[str, str] = {}
        self.funcs: dict[str, ast.FunctionDef] = {}       # "mod:Class.meth" / "mod:func"
        self.classes: dict[str, tuple[str, ast.ClassDef]] = {}  # simple class name -> (mod, node)
        self.enums: dict[str, dict[str, object]] = {}      # enum name -> member -> python value
        self.consts: dict[str, object] = {}                # "mod:NAME" and bare NAME -> literal value
        self.const_nodes: dict[str, ast.AST] = {}          # "mod:NAME" -> value node
        self.properties: set[str] = set()                  # qnames decorated with @property
        self.statics: set[str] = set()
        self._load()

    # ------------------------------------------------------------------ loading
    def _load(self):
        pkgdir = os.path.join(self.root, self.package)
        for dirpath, _dirs, files in os.walk(pkgdir):
            for f in sorted(files):
                if not f.endswith(".py"):
                    continue
                path = os.path.join(dirpath, f)
                rel = os.path.relpath(path, self.root)
                mod = rel[:-3].replace(os.sep, ".")
                if mod.endswith(".__init__"):
                    mod = mod[: -len(".__init__")]
                src = open(path, encoding="utf-8").read()
                self.add_module(mod, src, path)

    def add_module(self, mod: str, src: str, path: str = "<string>"):
        tree = ast.parse(src, filename=path)
        self.modules[mod] = tree
        self.sources[mod] = src
        self.paths[mod] = path
        for node in tree.body:
            if isinstance(node, (ast.FunctionDef,)):
                self.funcs[f"{mod}:{node.name}"] = node
            elif isinstance(node, ast.ClassDef):
                self.classes[node.name] = (mod, node)
                bases = [b.id if isinstance(b, ast.Name) else getattr(b, "attr", "?") for b in node.bases]
                if "Enum" in bases:
                    members = {}
                    for st in node.body:
                        if isinstance(st, ast.Assign) and len(st.targets) == 1 and isinstance(st.targets[0], ast.Name):
                            try:
                                members[st.targets[0].id] = ast.literal_eval(st.value)
                            except Exception:
                                pass
                    self.enums[node.name] = members
                    ty.declare_enum(node.name, list(members))
                for st in node.body:
                    if isinstance(st, ast.FunctionDef):
                        q = f"{mod}:{node.name}.{st.name}"
                        self.funcs[q] = st
                        for d in st.decorator_list:
                            if isinstance(d, ast.Name) and d.id == "property":
                                self.properties.add(q)
                            if isinstance(d, ast.Name) and d.id == "staticmethod":
                                self.statics.add(q)
                    elif isinstance(st, ast.Assign) and len(st.targets) == 1 and isinstance(st.targets[0], ast.Name):
                        self.const_nodes[f"{mod}:{node.name}.{st.targets[0].id}"] = st.value
            elif isinstance(node, (ast.Assign, ast.AnnAssign)):
                tgt = node.targets[0] if isinstance(node, ast.Assign) else node.target
                if isinstance(tgt, ast.Name) and node.value is not None:
                    self.const_nodes[f"{mod}:{tgt.id}"] = node.value
                    try:
                        val = ast.literal_eval(node.value)
                        self.consts[f"{mod}:{tgt.id}"] = val
                        self.consts.setdefault(tgt.id, val)
                    except Exception:
                        pass

    # ------------------------------------------------------------------ lookup
    def func(self, qname: str) -> ast.FunctionDef:
        qname = qname.split("#")[0]   # contract variants ("<qname>#<variant>") attach to the same function
        if qname not in self.funcs:
            raise KeyError(f"function {qname} not found in {self.root} (contract attachment lost)")
        return self.funcs[qname]

    def class_bases(self, cls: str) -> list[str]:
        if cls not in self.classes:
            return []
        _m, node = self.classes[cls]
        out = []
        for b in node.bases:
            if isinstance(b, ast.Name):
                out.append(b.id)
            elif isinstance(b, ast.Subscript) and isinstance(b.value, ast.Name):
                out.append(b.value.id)
        return [b for b in out if b in self.classes]

    def mro(self, cls: str) -> list[str]:
        out, todo = [], [cls]
        while todo:
            c = todo.pop(0)
            if c in out:
                continue
            out.append(c)
            todo.extend(self.class_bases(c))
        return out

    def method(self, cls: str, name: str) -> str | None:
        for c in self.mro(cls):
            if c in self.classes:
                mod, _n = self.classes[c]
                q = f"{mod}:{c}.{name}"
                if q in self.funcs:
                    return q
        return None

    def module_of(self, qname: str) -> str:
        return qname.split("#")[0].split(":")[0]

    def func_source_hash(self, qname: str) -> str:
        node = self.func(qname)
        seg = ast.get_source_segment(self.sources[self.module_of(qname)], node) or ast.dump(node)
        return hashlib.sha256(seg.encode()).hexdigest()[:16]

    def func_source(self, qname: str) -> str:
        node = self.func(qname)
        return ast.get_source_segment(self.sources[self.module_of(qname)], node) or ""

    def enum_value(self, enum: str, member: str):
        return self.enums[enum][member]


def loops_of(fn: ast.AST) -> list[ast.AST]:
    """For/While statements of a function in source (pre-order) order, not descending into nested defs."""
    out = []

    def walk(stmts):
        for s in stmts:
            if isinstance(s, (ast.For, ast.While)):
                out.append(s)
                walk(s.body)
                walk(s.orelse)
            elif isinstance(s, ast.If):
                walk(s.body)
                walk(s.orelse)
            elif isinstance(s, ast.Try):
                walk(s.body)
                for h in s.handlers:
                    walk(h.body)
                walk(s.orelse)
                walk(s.finalbody)
            elif isinstance(s, ast.With):
                walk(s.body)

    walk(fn.body)
    return out


def assigned_names(stmts) -> set[str]:
    out = set()
    for s in stmts:
        for n in ast.walk(s):
            if isinstance(n, ast.Name) and isinstance(n.ctx, (ast.Store, ast.Del)):
                out.add(n.id)
    return out

"""Arithmetic lemmas for products/quotients of two symbolic reals.

Inside heap-level VCs `x*y` and `x/y` (both symbolic) are the uninterpreted rmul/rdiv, so that
quantifier instantiation is not mixed with nonlinear arithmetic.  The facts the proofs need are the
lemmas below.  Each lemma is (1) PROVED quantifier-free with interpreted real arithmetic (nlsat) as
an obligation of its own on every run, and (2) used as a trigger-annotated axiom over rmul/rdiv."""
from __future__ import annotations
import z3

R = z3.RealSort()
x, y, t, u = z3.Reals("ax ay at au")


def lemmas(rmul, rdiv):
    """name, vars, body(mul, div), patterns(mul, div)"""
    return [
        ("div-by-reciprocal", [x, t], lambda m, d: z3.Implies(t > 0, d(x, d(1, t)) == m(x, t)), lambda m, d: [d(x, d(1, t))]),
        ("reciprocal-positive", [t], lambda m, d: z3.Implies(t > 0, d(1, t) > 0), lambda m, d: [d(1, t)]),
        ("mul-nonneg", [x, t], lambda m, d: z3.Implies(z3.And(x >= 0, t >= 0), m(x, t) >= 0), lambda m, d: [m(x, t)]),
        ("mul-pos", [x, t], lambda m, d: z3.Implies(z3.And(x > 0, t > 0), m(x, t) > 0), lambda m, d: [m(x, t)]),
        ("div-nonneg", [x, t], lambda m, d: z3.Implies(z3.And(x >= 0, t > 0), d(x, t) >= 0), lambda m, d: [d(x, t)]),
        ("div-pos", [x, t], lambda m, d: z3.Implies(z3.And(x > 0, t > 0), d(x, t) > 0), lambda m, d: [d(x, t)]),
        ("mul-comm", [x, t], lambda m, d: m(x, t) == m(t, x), lambda m, d: [m(x, t)]),
        ("mul-zero", [t], lambda m, d: m(0, t) == 0, lambda m, d: [m(0, t)]),
        ("mul-ge-when-factor-ge-1", [x, t], lambda m, d: z3.Implies(z3.And(x >= 0, t >= 1), m(x, t) >= x), lambda m, d: [m(x, t)]),
        ("mul-mono", [x, y, t], lambda m, d: z3.Implies(z3.And(x <= y, t >= 0), m(x, t) <= m(y, t)), lambda m, d: [z3.MultiPattern(m(x, t), m(y, t))]),
        ("div-mul-cancel", [x, t], lambda m, d: z3.Implies(t > 0, m(d(x, t), t) == x), lambda m, d: [m(d(x, t), t)]),
        ("div-le-1", [x, t], lambda m, d: z3.Implies(z3.And(t > 0, x <= t, x >= 0), z3.And(d(x, t) <= 1, d(x, t) >= 0)), lambda m, d: [d(x, t)]),
        ("mul-le-when-factor-le-1", [x, t], lambda m, d: z3.Implies(z3.And(x >= 0, t >= 0, t <= 1), m(x, t) <= x), lambda m, d: [m(x, t)]),
        ("mul-le-iff-le-div", [x, y, t], lambda m, d: z3.Implies(t > 0, (m(x, t) <= y) == (x <= d(y, t))),
         lambda m, d: [z3.MultiPattern(m(x, t), d(y, t))]),
        ("square-over-self", [x], lambda m, d: z3.Implies(x > 0, m(x, d(x, x)) == x), lambda m, d: [m(x, d(x, x))]),
    ]


def axioms(E):
    rmul = E.ufn("rmul", R, R, R)
    rdiv = E.ufn("rdiv", R, R, R)
    out = []
    for name, vs, body, pats in lemmas(rmul, rdiv):
        ps = pats(rmul, rdiv)
        out.append(z3.ForAll(vs, body(rmul, rdiv), patterns=ps))
    return out


def proof_obligations():
    """(name, formula) pairs: the lemma with interpreted * and /; valid iff the negation is unsat."""
    mul = lambda a, b: a * b
    div = lambda a, b: a / b
    out = []
    for name, vs, body, _p in lemmas(None, None):
        out.append((f"lemma:arith:{name}", body(mul, div)))
    return out


def prove_all(timeout_ms=20000):
    res = []
    for name, f in proof_obligations():
        s = z3.Solver()
        s.set("timeout", timeout_ms)
        s.add(z3.Not(f))
        r = s.check()
        res.append((name, str(r)))
    return res

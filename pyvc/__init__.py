"""pyvc: a small verification-condition generator for the Python subset used by eudoxia."""

"""Native evaluation of the sidecar contract language on REAL objects of the repository.

The same contract text that is compiled to SMT is evaluated here by CPython: as a run-time monitor
around the real functions (counterexample replay, bounded stand-ins, contract validation).

old(e) is evaluated on a snapshot of the object graph taken before the call."""
from __future__ import annotations
import ast
import enum
import gc
import math
import types
from .spec import parse_expr, split_tags

ATOMIC = (int, float, str, bool, type(None), enum.Enum, types.FunctionType, types.BuiltinFunctionType,
          types.MethodType, types.GeneratorType, type, types.ModuleType)


class Skip(Exception):
    """the clause cannot be evaluated natively (no old value for a fresh object, unsupported construct)"""


class Snapshot:
    """Deep copy of the object graph reachable from the roots, with original<->copy maps."""

    def __init__(self, roots, classes=()):
        self.memo = {}      # id(original) -> copy
        self.back = {}      # id(copy) -> original
        self.keep = []
        # mutable class attributes (e.g. Container.next_container_num) as they were
        self.class_attrs = {id(c): {k: v for k, v in vars(c).items() if isinstance(v, (int, float, str)) and not k.startswith("__")}
                            for c in classes}
        for r in roots:
            self.copy(r)

    def copy(self, o):
        if isinstance(o, ATOMIC) or o.__class__.__module__ in ("uuid", "numpy.random._generator", "numpy"):
            return o
        i = id(o)
        if i in self.memo:
            return self.memo[i]
        self.keep.append(o)
        if isinstance(o, list):
            c = []
            self.memo[i] = c
            c.extend(self.copy(x) for x in o)
        elif isinstance(o, tuple):
            c = tuple(self.copy(x) for x in o)
            if hasattr(o, "_fields"):
                c = o.__class__(*c)
            self.memo[i] = c
        elif isinstance(o, dict):
            c = o.__class__() if o.__class__ is dict else dict()
            self.memo[i] = c
            for k, v in o.items():
                c[self.copy(k)] = self.copy(v)
        elif isinstance(o, (set, frozenset)):
            c = set(self.copy(x) for x in o)
            self.memo[i] = c
        elif hasattr(o, "__dict__"):
            try:
                c = object.__new__(o.__class__)
            except TypeError:
                self.memo[i] = o
                return o
            self.memo[i] = c
            for k, v in o.__dict__.items():
                c.__dict__[k] = self.copy(v)
        else:
            self.memo[i] = o
            return o
        self.back[id(self.memo[i])] = o
        return self.memo[i]

    def to_old(self, o):
        """the snapshot twin of a current object (Skip if it did not exist then)"""
        if isinstance(o, ATOMIC):
            return o
        if id(o) in self.back:
            return o
        if id(o) in self.memo:
            return self.memo[id(o)]
        raise Skip("object did not exist in the pre-state")

    def to_new(self, v):
        """map a value computed in the snapshot world back to current objects (containers shallowly)"""
        if isinstance(v, ATOMIC):
            return v
        if id(v) in self.back and not isinstance(v, (list, dict, set, tuple)):
            return self.back[id(v)]
        if isinstance(v, list):
            return [self.to_new(x) for x in v]
        if isinstance(v, tuple):
            return tuple(self.to_new(x) for x in v)
        if isinstance(v, dict):
            return {self.to_new(k): self.to_new(x) for k, x in v.items()}
        if isinstance(v, (set, frozenset)):
            return {self.to_new(x) for x in v}
        return v


class Evaluator:
    def __init__(self, S, namespace: dict):
        self.S = S
        self.ns = namespace      # names visible to specs: classes, enums, constants of the real modules

    # -------------------------------------------------------------------------------------------
    def eval(self, src: str, env: dict, snap: Snapshot | None = None, in_old=False):
        return self.ev(parse_expr(src), dict(env), snap, in_old)

    def truth(self, v):
        return bool(v)

    def ev(self, n, env, snap, in_old):
        m = getattr(self, "n_" + type(n).__name__, None)
        if m is None:
            raise Skip(f"native: {type(n).__name__}")
        return m(n, env, snap, in_old)

    def n_Constant(self, n, env, snap, in_old):
        return n.value

    def n_Name(self, n, env, snap, in_old):
        if n.id in env:
            return env[n.id]
        if n.id in self.ns:
            return self.ns[n.id]
        if n.id in ("True", "False", "None"):
            return {"True": True, "False": False, "None": None}[n.id]
        raise Skip(f"native: unknown name {n.id}")

    def n_Attribute(self, n, env, snap, in_old):
        base = self.ev(n.value, env, snap, in_old)
        if in_old and snap is not None and isinstance(base, type) and n.attr in snap.class_attrs.get(id(base), {}):
            return snap.class_attrs[id(base)][n.attr]
        try:
            v = getattr(base, n.attr)
        except AttributeError:
            if n.attr == "owner" and isinstance(base, types.GeneratorType):
                # ghost field TickGen.owner: the container whose generator this is
                fr = base.gi_frame
                if fr is not None and "self" in fr.f_locals:
                    o = fr.f_locals["self"]
                    return snap.to_old(o) if (in_old and snap is not None) else o
                for o in gc.get_objects():
                    if getattr(o, "_tick_iter", None) is base:
                        return o
            raise Skip(f"native: no attribute {n.attr}")
        if callable(v) and isinstance(v, types.MethodType) and n.attr in ("operators", "pool_id", "priority"):
            return v
        return v

    def n_Subscript(self, n, env, snap, in_old):
        base = self.ev(n.value, env, snap, in_old)
        if isinstance(n.slice, ast.Slice):
            lo = self.ev(n.slice.lower, env, snap, in_old) if n.slice.lower else None
            hi = self.ev(n.slice.upper, env, snap, in_old) if n.slice.upper else None
            return list(base)[lo:hi]
        idx = self.ev(n.slice, env, snap, in_old)
        try:
            return base[idx]
        except (KeyError, IndexError, TypeError):
            raise Skip("native: subscript out of domain")

    def n_Tuple(self, n, env, snap, in_old):
        return tuple(self.ev(e, env, snap, in_old) for e in n.elts)

    def n_List(self, n, env, snap, in_old):
        return [self.ev(e, env, snap, in_old) for e in n.elts]

    def n_UnaryOp(self, n, env, snap, in_old):
        v = self.ev(n.operand, env, snap, in_old)
        if isinstance(n.op, ast.Not):
            return not v
        if isinstance(n.op, ast.USub):
            return -v
        return v

    def n_BoolOp(self, n, env, snap, in_old):
        if isinstance(n.op, ast.And):
            res = True
            for e in n.values:
                res = self.ev(e, env, snap, in_old)
                if not res:
                    return res
            return res
        res = False
        for e in n.values:
            res = self.ev(e, env, snap, in_old)
            if res:
                return res
        return res

    def n_IfExp(self, n, env, snap, in_old):
        return self.ev(n.body, env, snap, in_old) if self.ev(n.test, env, snap, in_old) else self.ev(n.orelse, env, snap, in_old)

    def n_BinOp(self, n, env, snap, in_old):
        a, b = self.ev(n.left, env, snap, in_old), self.ev(n.right, env, snap, in_old)
        op = n.op
        try:
            if isinstance(op, ast.Add):
                return (list(a) + list(b)) if isinstance(a, (list, tuple)) and not isinstance(a, str) and isinstance(b, (list, tuple)) else a + b
            if isinstance(op, ast.Sub): return a - b
            if isinstance(op, ast.Mult): return a * b
            if isinstance(op, ast.Div): return a / b
            if isinstance(op, ast.FloorDiv): return a // b
            if isinstance(op, ast.Mod): return a % b
        except (ZeroDivisionError, TypeError):
            raise Skip("native: arithmetic out of domain")
        raise Skip("native: operator")

    def n_Compare(self, n, env, snap, in_old):
        left = self.ev(n.left, env, snap, in_old)
        for op, rn in zip(n.ops, n.comparators):
            right = self.ev(rn, env, snap, in_old)
            if not self.cmp(op, left, right):
                return False
            left = right
        return True

    def cmp(self, op, a, b):
        try:
            if isinstance(op, ast.Is): return a is b or (isinstance(a, ATOMIC) and not isinstance(a, types.GeneratorType) and a == b and type(a) is type(b))
            if isinstance(op, ast.IsNot): return not self.cmp(ast.Is(), a, b)
            if isinstance(op, ast.Eq): return self.eq(a, b)
            if isinstance(op, ast.NotEq): return not self.eq(a, b)
            if isinstance(op, ast.In): return self.contains(b, a)
            if isinstance(op, ast.NotIn): return not self.contains(b, a)
            if isinstance(op, ast.Lt): return a < b - 0 if False else a < b
            if isinstance(op, ast.LtE): return a <= b
            if isinstance(op, ast.Gt): return a > b
            if isinstance(op, ast.GtE): return a >= b
        except TypeError:
            raise Skip("native: comparison out of domain")
        raise Skip("native: comparison")

    def eq(self, a, b):
        if isinstance(a, float) or isinstance(b, float):
            try:
                return a == b or math.isclose(a, b, rel_tol=1e-9, abs_tol=1e-9)
            except TypeError:
                return False
        if isinstance(a, (list, tuple)) and isinstance(b, (list, tuple)) and not isinstance(a, str):
            return len(a) == len(b) and all(self.eq(x, y) for x, y in zip(a, b))
        if isinstance(a, dict) and isinstance(b, dict):
            return a.keys() == b.keys() and all(self.eq(a[k], b[k]) for k in a)
        return a is b or a == b

    def contains(self, coll, x):
        if isinstance(coll, dict):
            return x in coll
        for y in coll:
            if y is x or (isinstance(y, ATOMIC) and not isinstance(y, types.GeneratorType) and y == x):
                return True
        return False

    def n_ListComp(self, n, env, snap, in_old):
        out = []

        def rec(gi, env):
            if gi == len(n.generators):
                out.append(self.ev(n.elt, env, snap, in_old))
                return
            gen = n.generators[gi]
            for x in self.domain(gen, env, snap, in_old):
                e2 = dict(env)
                self.bind(gen.target, x, e2)
                if all(self.ev(c, e2, snap, in_old) for c in gen.ifs):
                    rec(gi + 1, e2)
        rec(0, env)
        return out

    # ---- quantifiers ---------------------------------------------------------------------------
    def domain(self, gen, env, snap, in_old):
        it = gen.iter
        if isinstance(it, ast.Call) and isinstance(it.func, ast.Name) and it.func.id == "every":
            cname = it.args[0].value
            if cname in ("str", "int"):
                raise Skip("unbounded quantifier over a value type")
            cls = self.ns[cname]
            reg = getattr(self, "registry", {})
            if cname in reg:
                objs = list(reg[cname])
                for sub, r in reg.items():
                    if sub != cname and isinstance(self.ns.get(sub), type) and issubclass(self.ns[sub], cls):
                        objs.extend(r)
            else:
                objs = [o for o in gc.get_objects() if isinstance(o, cls)]
            if snap is not None:
                # objects of the snapshot world are not part of the universe
                objs = [o for o in objs if id(o) not in snap.back]
            if in_old and snap is not None:
                objs = [snap.memo[id(o)] for o in objs if id(o) in snap.memo]
            return objs
        if isinstance(it, ast.Call) and isinstance(it.func, ast.Name) and it.func.id == "range":
            args = [self.ev(a, env, snap, in_old) for a in it.args]
            return list(range(*args))
        v = self.ev(it, env, snap, in_old)
        if isinstance(v, type) and issubclass(v, enum.Enum):
            return list(v)
        if isinstance(v, dict):
            return list(v.keys())
        return list(v)

    def bind(self, target, val, env):
        if isinstance(target, ast.Name):
            env[target.id] = val
        else:
            for t, v in zip(target.elts, val):
                self.bind(t, v, env)

    def quant(self, g, env, snap, in_old, universal):
        def rec(gi, env):
            if gi == len(g.generators):
                try:
                    yield bool(self.ev(g.elt, env, snap, in_old))
                except Skip:
                    yield universal   # elements without an old value (fresh objects) are exempt
                return
            gen = g.generators[gi]
            for x in self.domain(gen, env, snap, in_old):
                e2 = dict(env)
                self.bind(gen.target, x, e2)
                try:
                    if all(self.ev(c, e2, snap, in_old) for c in gen.ifs):
                        yield from rec(gi + 1, e2)
                except Skip:
                    continue
        return all(rec(0, env)) if universal else any(rec(0, env))

    # ---- calls ------------------------------------------------------------------------------------
    def n_Call(self, n, env, snap, in_old):
        f = n.func
        A = n.args
        if isinstance(f, ast.Name):
            name = f.id
            ev = lambda a: self.ev(a, env, snap, in_old)
            if name == "old":
                if snap is None:
                    raise Skip("old() without snapshot")
                env2 = {}
                for k, v in env.items():
                    try:
                        env2[k] = snap.to_old(v) if not isinstance(v, ATOMIC) else v
                    except Skip:
                        pass   # a fresh object (e.g. `result`) has no pre-state twin; using it inside old() is skipped
                return snap.to_new(self.ev(A[0], env2, snap, True))
            if name in ("all", "any") and isinstance(A[0], ast.GeneratorExp):
                return self.quant(A[0], env, snap, in_old, name == "all")
            if name in ("all", "any"):
                return (all if name == "all" else any)(ev(A[0]))
            if name == "implies": return (not ev(A[0])) or bool(ev(A[1]))
            if name == "iff": return bool(ev(A[0])) == bool(ev(A[1]))
            if name == "ite": return ev(A[1]) if ev(A[0]) else ev(A[2])
            if name == "len": return len(ev(A[0]))
            if name in ("max", "min"): return (max if name == "max" else min)(*[ev(a) for a in A])
            if name == "abs": return abs(ev(A[0]))
            if name == "seq": return list(ev(A[0]))
            if name == "keys": return list(ev(A[0]).keys())
            if name == "vals": return dict(ev(A[0]))
            if name == "vals_seq": return list(ev(A[0]).values())
            if name == "vals_set": return set(ev(A[0]))
            if name == "store":
                d = dict(ev(A[0])); d[ev(A[1])] = ev(A[2]); return d
            if name == "select": return ev(A[0])[ev(A[1])]
            if name == "nodup":
                s = list(ev(A[0])); return all(not any(x is y for y in s[i + 1:]) for i, x in enumerate(s))
            if name == "take": return list(ev(A[0]))[:max(0, ev(A[1]))]
            if name == "drop": return list(ev(A[0]))[max(0, ev(A[1])):]
            if name == "app": return list(ev(A[0])) + [ev(A[1])]
            if name == "cat": return list(ev(A[0])) + list(ev(A[1]))
            if name == "rem":
                s = list(ev(A[0])); x = ev(A[1])
                for i, y in enumerate(s):
                    if y is x:
                        return s[:i] + s[i + 1:]
                return s
            if name == "empty": return len(ev(A[0])) == 0
            if name == "idx":
                s = list(ev(A[0])); x = ev(A[1])
                for i, y in enumerate(s):
                    if y is x or y == x:
                        return i
                raise Skip("idx of a non-member")
            if name == "Sum":
                s = list(ev(A[0])); mname = A[1].value
                if len(A) > 2:
                    pv = ev(A[2])
                    return sum(self.measure(mname, x, pv) for x in s)
                return sum(self.measure(mname, x) for x in s)
            if name == "Cnt":
                d, v = ev(A[0]), ev(A[1]); return sum(1 for k in d if d[k] == v)
            if name == "fresh":
                v = ev(A[0]); return snap is None or (not isinstance(v, ATOMIC) and id(v) not in snap.memo)
            if name == "allocated":
                v = ev(A[0])
                return True
            if name == "floor": return math.floor(ev(A[0]))
            if name == "real": return float(ev(A[0]))
            if name == "is_none": return ev(A[0]) is None
            if name == "val": return ev(A[0])
            if name == "rmul": return ev(A[0]) * ev(A[1])
            if name == "rdiv":
                try:
                    return ev(A[0]) / ev(A[1])
                except ZeroDivisionError:
                    raise Skip("division by zero")
            if name == "is_nan":
                return math.isnan(ev(A[0]))
            if name == "np_mean":
                import numpy as np; return float(np.mean(list(ev(A[0]))))
            if name == "np_percentile":
                import numpy as np; return float(np.percentile(list(ev(A[0])), ev(A[1])))
            if name == "np_log":
                import numpy as np; return float(np.log(ev(A[0])))
            if name == "np_sqrt":
                import numpy as np; return float(np.sqrt(ev(A[0])))
            if name == "pow2":
                import numpy as np; return float(np.power(2, ev(A[0])))
            if name == "unknown_callable":
                raise Skip("unknown callable")
            if name == "fmt": return A[0].value.format(*[ev(a) for a in A[1:]])
            if name == "unfmt":
                tmpl, i, s = A[0].value, A[1].value, ev(A[2])
                import re
                rx = "^" + re.escape(tmpl).replace(re.escape("{}"), "(-?\\d+)") + "$"
                m = re.match(rx, str(s))
                if not m:
                    raise Skip("unfmt: no match")
                return int(m.group(i + 1))
            if name in ("unchanged",):
                return all(self.eq(ev(a), self.n_Call(ast.Call(func=ast.Name(id="old"), args=[a], keywords=[]), env, snap, in_old)) for a in A)
            if name in ("at_entry", "resume"):
                raise Skip("loop-relative expression")
            if name in self.S.preds:
                p = self.S.preds[name]
                e2 = {pn: ev(a) for (pn, _pt), a in zip(p.params, A)}
                return self.ev(parse_expr(p.body), e2, snap, in_old)
            raise Skip(f"native: call {name}")
        if isinstance(f, ast.Attribute):
            base = self.ev(f.value, env, snap, in_old)
            args = [self.ev(a, env, snap, in_old) for a in A]
            if f.attr in ("get", "keys", "values", "items", "index", "is_completed", "get_current_memory_usage", "failed"):
                return getattr(base, f.attr)(*args)
        raise Skip("native: call form")

    def measure(self, mname, x, pv=None):
        if mname in self.S.measures:
            cls, var, expr, t = self.S.measures[mname]
            env = {var: x}
            if mname in self.S.measure_params:
                env[self.S.measure_params[mname][0]] = pv
            return self.ev(parse_expr(expr), env, None, False)
        cls, fld = mname.split(".")
        return getattr(x, fld)

"""Call evaluation: builtins, container methods, contracts, inlining, spec-level functions."""
from __future__ import annotations
import ast
import z3
from .qa import ForAll as QForAll
from . import ty
from .ty import T, INT, REAL, BOOL, STR, NONE
from .prelude import seq_ops
from .spec import FnContract, parse_expr

MAX_INLINE_DEPTH = 6
import itertools as _it
_tmp_counter = _it.count()


def eval_call(E, node: ast.Call, st, fr):
    from .engine import V, CheckerError, Frame, State, fresh, PYCONST, CLASSREF, FUNCREF, BOUND, MODREF
    f = node.func
    # ---------------- spec-level functions -------------------------------------------------
    if isinstance(f, ast.Name) and fr.spec:
        r = spec_call(E, f.id, node, st, fr)
        if r is not NotImplemented:
            return r
    if isinstance(f, ast.Name):
        r = builtin_call(E, f.id, node, st, fr)
        if r is not NotImplemented:
            return r
    fv = E.ev(f, st, fr)
    args = [E.ev(a, st, fr) for a in node.args]
    kwargs = {k.arg: E.ev(k.value, st, fr) for k in node.keywords if k.arg is not None}
    if any(k.arg is None for k in node.keywords):
        E.abstracted.add(f"{fr.qname}: **kwargs expansion at a call site ignored")
    k = fv.t.kind
    if k == "funcref":
        return E.call_function(fv.py, args, kwargs, st, fr, node)
    if k == "classref":
        return construct(E, fv.py, args, kwargs, st, fr, node)
    if k == "bound":
        recv, meth = fv.py
        return method_call(E, recv, meth, args, kwargs, st, fr, node)
    if k == "fn":
        return dynamic_fn_call(E, fv, args, st, fr, node)
    if k == "lambda":
        lam = fv.py
        sub_binds = dict(fr.binds)
        for p, a in zip(lam.args.args, args):
            sub_binds[p.arg] = a
        sub = Frame(fr.qname, fr.module, fr.cls, fr.contract, fr.fn, old=fr.old, spec=True, binds=sub_binds,
                    entry_locals=fr.entry_locals, loop_entry=fr.loop_entry)
        return E.ev(lam.body, st, sub)
    raise CheckerError(f"{fr.qname}: call of {ast.unparse(f)} ({fv.t}) not modelled (line {node.lineno})")


# =========================================================================== spec functions
def spec_call(E, name, node, st, fr):
    from .engine import V, CheckerError, Frame, State, fresh
    A = node.args
    if name == "old":
        if fr.old is None:
            raise CheckerError("old() outside a postcondition")
        sub = Frame(fr.qname, fr.module, fr.cls, fr.contract, fr.fn, old=None, spec=True, binds=dict(fr.binds),
                    entry_locals=fr.entry_locals, loop_entry=fr.loop_entry)
        o = fr.old.copy()
        o.locals = dict(fr.old.locals)
        o.pc = st.pc      # definitional facts go to the current path condition
        return E.ev(A[0], o, sub)
    if name == "resume":
        if st.resume is None:
            raise CheckerError("resume() outside generator verification")
        o = st.resume.copy()
        o.locals = dict(st.locals)
        o.pc = st.pc
        return E.ev(A[0], o, fr)
    if name == "at_entry":
        if not fr.loop_entry:
            raise CheckerError("at_entry() outside a loop invariant")
        o = fr.loop_entry[-1].copy()
        o.pc = st.pc
        sub = Frame(fr.qname, fr.module, fr.cls, fr.contract, fr.fn, old=fr.old, spec=True, binds=dict(fr.binds),
                    entry_locals=fr.entry_locals, loop_entry=fr.loop_entry[:-1])
        return E.ev(A[0], o, sub)
    if name == "implies":
        a = E.truthy(E.ev(A[0], st, fr), st, fr)
        base = len(st.pc)
        b = E.truthy(E.ev(A[1], st, fr), st, fr)
        return V(BOOL, z3.Implies(a, b))
    if name == "iff":
        a = E.truthy(E.ev(A[0], st, fr), st, fr)
        b = E.truthy(E.ev(A[1], st, fr), st, fr)
        return V(BOOL, a == b)
    if name == "ite":
        c = E.truthy(E.ev(A[0], st, fr), st, fr)
        return E.ite(c, E.ev(A[1], st, fr), E.ev(A[2], st, fr))
    if name == "seq":
        v = E.ev(A[0], st, fr)
        s, et = E.as_seq(v, st)
        return V(ty.SeqV(et), s)
    if name == "keys":
        v = E.ev(A[0], st, fr)
        return V(ty.SeqV(v.t.args[0]), E.dict_keys(st, v))
    if name == "vals_seq":
        # the values of a dict as a sequence (insertion order)
        d = E.ev(A[0], st, fr)
        return method_call(E, d, "values", [], {}, st, fr, node)
    if name == "vals_set":
        v = E.ev(A[0], st, fr)
        return V(T("arr", (v.t.args[0], BOOL)), E.set_arr(st, v))
    if name == "vals":
        v = E.ev(A[0], st, fr)
        return V(T("arr", (v.t.args[0], v.t.args[1])), E.dict_vals(st, v))
    if name == "store":
        a = E.ev(A[0], st, fr)
        kt, vt = a.t.args
        k = E.coerce(E.ev(A[1], st, fr), kt)
        v = E.coerce(E.ev(A[2], st, fr), vt)
        return V(a.t, z3.Store(a.z, k.z, v.z))
    if name == "select":
        a = E.ev(A[0], st, fr)
        kt, vt = a.t.args
        k = E.coerce(E.ev(A[1], st, fr), kt)
        return V(vt, z3.Select(a.z, k.z))
    if name == "nodup":
        s, et = E.as_seq(E.ev(A[0], st, fr), st)
        return V(BOOL, seq_ops(et).NoDup(s))
    if name in ("take", "drop"):
        s, et = E.as_seq(E.ev(A[0], st, fr), st)
        n = E.ev(A[1], st, fr)
        so = seq_ops(et)
        return V(ty.SeqV(et), (so.Take if name == "take" else so.Drop)(s, n.z))
    if name == "app":
        s, et = E.as_seq(E.ev(A[0], st, fr), st)
        x = E.coerce(E.ev(A[1], st, fr), et)
        return V(ty.SeqV(et), seq_ops(et).App(s, x.z))
    if name == "cat":
        s, et = E.as_seq(E.ev(A[0], st, fr), st)
        s2, _ = E.as_seq(E.ev(A[1], st, fr), st)
        return V(ty.SeqV(et), seq_ops(et).Cat(s, s2))
    if name == "rem":
        s, et = E.as_seq(E.ev(A[0], st, fr), st)
        x = E.coerce(E.ev(A[1], st, fr), et)
        return V(ty.SeqV(et), seq_ops(et).Rem(s, x.z))
    if name == "empty":
        v = E.ev(A[0], st, fr)
        s, et = E.as_seq(v, st)
        return V(BOOL, s == seq_ops(et).Empty)
    if name == "idx":
        s, et = E.as_seq(E.ev(A[0], st, fr), st)
        x = E.coerce(E.ev(A[1], st, fr), et)
        return V(INT, seq_ops(et).Idx(s, x.z))
    if name == "Sum":
        s, et = E.as_seq(E.ev(A[0], st, fr), st)
        mname = A[1].value if isinstance(A[1], ast.Constant) else ast.unparse(A[1])
        arr, vt = measure_array(E, mname, st, fr, E.ev(A[2], st, fr) if len(A) > 2 else None)
        return V(vt, seq_ops(et).Sum(ty.zsort(vt))(s, arr))
    if name == "Cnt":
        d = E.ev(A[0], st, fr)
        v = E.ev(A[1], st, fr)
        kt, vt = d.t.args[:2]
        Cnt, _w = seq_ops(kt).Cnt(ty.zsort(vt))
        return V(INT, Cnt(E.dict_keys(st, d), E.dict_vals(st, d), E.coerce(v, vt).z))
    if name == "fresh":
        v = E.ev(A[0], st, fr)
        if fr.old is None:
            raise CheckerError("fresh() outside a postcondition")
        # allocation only grows, so an object that is fresh w.r.t. any later state was not allocated at function entry either;
        # stating it keeps the fact usable after the intermediate heap version has been pruned at a loop head
        if ("alloc",) not in E.heap0:
            E.heap0[("alloc",)] = z3.Const("H0_alloc", E.key_sort(("alloc",)))
        parts = [v.z != ty.null, z3.Not(z3.Select(E.alloc(fr.old), v.z)), z3.Select(E.alloc(st), v.z),
                 z3.Not(z3.Select(E.heap0[("alloc",)], v.z))]
        if getattr(E, "_assume_site", None):
            parts.append(E.ufn("birth", ty.RefSort, z3.IntSort())(v.z) == E._assume_site)
        return V(BOOL, z3.And(*parts))
    if name == "allocated":
        v = E.ev(A[0], st, fr)
        return V(BOOL, z3.Select(E.alloc(st), v.z))
    if name == "floor":
        v = E.coerce(E.ev(A[0], st, fr), REAL)
        return V(INT, z3.ToInt(v.z))
    if name == "real":
        return E.coerce(E.ev(A[0], st, fr), REAL)
    if name == "is_none":
        v = E.ev(A[0], st, fr)
        return V(BOOL, E.eq(v, V(NONE, ty.null), st, fr))
    if name == "val":
        v = E.ev(A[0], st, fr)
        if v.t.kind == "opt":
            return V(v.t.args[0], ty.opt_sort(v.t.args[0])[3](v.z))
        return v
    if name in ("np_log", "np_sqrt", "pow2"):
        f = E.ufn(name, z3.RealSort(), z3.RealSort())
        return V(REAL, f(E.coerce(E.ev(A[0], st, fr), REAL).z))
    if name == "is_nan":
        return V(BOOL, E.coerce(E.ev(A[0], st, fr), REAL).z == z3.Const("nonfinite_nan", z3.RealSort()))
    if name in ("np_mean", "np_percentile"):
        sq, et = E.as_seq(E.ev(A[0], st, fr), st)
        so = seq_ops(et)
        f = E.ufn(name + "_" + str(so.S), so.S, *([z3.RealSort()] if name == "np_percentile" else []), z3.RealSort())
        return V(REAL, f(sq, E.coerce(E.ev(A[1], st, fr), REAL).z) if name == "np_percentile" else f(sq))
    if name == "unknown_callable":
        f = E.ufn("unknown_callable", ty.RefSort, z3.RealSort(), z3.RealSort(), z3.RealSort())
        return V(REAL, f(E.ev(A[0], st, fr).z, E.coerce(E.ev(A[1], st, fr), REAL).z, E.coerce(E.ev(A[2], st, fr), REAL).z))
    if name == "fmt":
        # the same injective function the engine uses for an f-string with this template text
        tmpl = A[0].value
        parts, rest, holes = [], tmpl, list(A[1:])
        vals = []
        segs = tmpl.split("{}")
        for i, sg in enumerate(segs):
            if sg:
                vals.append(ast.Constant(value=sg))
            if i < len(segs) - 1:
                vals.append(ast.FormattedValue(value=holes[i], conversion=-1, format_spec=None))
        return E.ev_JoinedStr(ast.JoinedStr(values=vals), st, fr)
    if name == "unfmt":
        # inverse of fmt(template, x0, ...) in hole i (exists because fmt is injective)
        tmpl, i = A[0].value, A[1].value
        sv = E.ev(A[2], st, fr)
        nholes = tmpl.count("{}")
        f = E.fmt_fn(tmpl, [z3.IntSort()] * nholes)
        inv = z3.Function(f"{f.name()}_inv{i}", ty.StrSort, f.domain(i))
        t = INT if f.domain(i) == z3.IntSort() else REAL
        return V(t, inv(sv.z))
    if name == "rmul":
        return E.mul(E.ev(A[0], st, fr), E.ev(A[1], st, fr))
    if name == "rdiv":
        return E.div(E.ev(A[0], st, fr), E.ev(A[1], st, fr))
    if name == "unchanged":
        # unchanged(loc, ...): value now equals value in old()
        conj = []
        for a in A:
            now = E.ev(a, st, fr)
            was = spec_call(E, "old", ast.Call(func=ast.Name(id="old"), args=[a], keywords=[]), st, fr)
            conj.append(loc_equal(E, now, was, st, fr))
        return V(BOOL, z3.And(*conj))
    if name == "same_contents":
        a, b = E.ev(A[0], st, fr), E.ev(A[1], st, fr)
        return V(BOOL, loc_equal(E, a, b, st, fr))
    if name in E.spec.preds:
        p = E.spec.preds[name]
        argv = [E.ev(a, st, fr) for a in A]
        binds = dict(fr.binds)
        for (pn, pt), av in zip(p.params, argv):
            binds[pn] = E.coerce(av, pt) if pt is not None and av.z is not None else av
        sub = Frame(fr.qname, fr.module, fr.cls, fr.contract, fr.fn, old=fr.old, spec=True, binds=binds,
                    entry_locals={}, loop_entry=fr.loop_entry)
        return E.ev(parse_expr(p.body), st, sub)
    return NotImplemented


def loc_equal(E, now, was, st, fr):
    """Equality of two values where lists/dicts compare by *contents* (spec level)."""
    k = now.t.kind
    if k == "list" and was.t.kind in ("list", "seqv"):
        sw = E.as_seq(was, fr.old if (fr.old is not None and was.t.kind == "list") else st)[0]
        return E.list_seq(st, now) == sw
    return E.eq(now, was, st, fr)


def measure_array(E, mname: str, st, fr, pval=None):
    """Array elem->value for Sum(): either a declared measure over immutable fields or a mutable field array."""
    from .engine import V, CheckerError, Frame, fresh
    if mname in E.spec.measure_params:
        # an indexed family of maps: pm(p)[x] == expr(p, x)
        cls, var, expr, t = E.spec.measures[mname]
        pname, pt = E.spec.measure_params[mname]
        if pval is None:
            raise CheckerError(f"measure {mname} needs its index value: Sum(seq, '{mname}', value)")
        if mname not in E.measure_arrays:
            fam = z3.Function(f"measure!{mname}", ty.zsort(pt), z3.ArraySort(ty.RefSort, ty.zsort(t)))
            x = z3.Const(f"mx!{mname}", ty.RefSort)
            pz = z3.Const(f"mp!{mname}", ty.zsort(pt))
            sub = Frame("measure:" + mname, "", None, None, None, spec=True, binds={var: V(ty.Ref(cls), x), pname: V(pt, pz)})
            from .engine import State
            tmp = State()
            val = E.coerce(E.ev(parse_expr(expr), tmp, sub), t)
            E.extra_axioms.append(QForAll([pz, x], z3.Select(fam(pz), x) == val.z, patterns=[z3.Select(fam(pz), x)]))
            E.measure_arrays[mname] = (fam, t, val, x)
        fam, t, _v, _x = E.measure_arrays[mname]
        return fam(E.coerce(pval, pt).z), t
    if mname in E.spec.measures:
        cls, var, expr, t = E.spec.measures[mname]
        if mname not in E.measure_arrays:
            arr = z3.Const(f"measure!{mname}", z3.ArraySort(ty.RefSort, ty.zsort(t)))
            x = z3.Const(f"mx!{mname}", ty.RefSort)
            sub = Frame("measure:" + mname, "", None, None, None, spec=True, binds={var: V(ty.Ref(cls), x)})
            from .engine import State
            tmp = State()
            val = E.coerce(E.ev(parse_expr(expr), tmp, sub), t)
            if tmp.heap or any(True for _ in []):
                pass
            # must only depend on immutable fields
            E.extra_axioms.append(QForAll([x], z3.Select(arr, x) == val.z, patterns=[z3.Select(arr, x)]))
            E.measure_arrays[mname] = (arr, t, val, x)
        arr, t, _v, _x = E.measure_arrays[mname]
        return arr, t
    if "." in mname:
        cls, fld = mname.split(".")
        owner, t, imm = E.fld_key(cls, fld)
        if imm:
            raise CheckerError(f"Sum over immutable field {mname}: declare a measure instead")
        return E.h(st, ("fld", owner, fld, t)), t
    raise CheckerError(f"unknown measure {mname}")


# =========================================================================== builtins
def builtin_call(E, name, node, st, fr):
    from .engine import V, CheckerError, Frame, State, fresh, PYCONST
    A = node.args
    if name in st.locals or (fr.spec and name in fr.binds):
        return NotImplemented
    if name == "len":
        v = E.ev(A[0], st, fr)
        k = v.t.kind
        if k in ("list", "seqv"):
            s, et = E.as_seq(v, st)
            return V(INT, seq_ops(et).Len(s))
        if k == "dict":
            return V(INT, seq_ops(v.t.args[0]).Len(E.dict_keys(st, v)))
        if k == "pyconst":
            return V(INT, z3.IntVal(len(v.py)))
        if k == "ref":
            q = E.prog.method(v.t.args[0], "__len__")
            if q:
                return E.call_function(q, [v], {}, st, fr, node)
        if k == "str":
            f = E.ufn("str_len", ty.StrSort, z3.IntSort())
            st.assume(f(v.z) >= 0)
            return V(INT, f(v.z))
        raise CheckerError(f"{fr.qname}: len of {v.t}")
    if name == "int":
        v = E.ev(A[0], st, fr)
        if v.t.kind == "str":
            f = E.ufn("str2int", ty.StrSort, z3.IntSort())
            E.abstracted.add("int(str): uninterpreted")
            return V(INT, f(v.z))
        v = E.num(v, st, fr)
        return E.to_int(v)
    if name == "float":
        v = E.ev(A[0], st, fr)
        if v.t.kind == "str":
            if isinstance(A[0], ast.Constant):
                E.abstracted.add("float('nan'/'inf'): a fixed uninterpreted real constant per spelling (never compared by the verified code)")
                return V(REAL, z3.Const("nonfinite_" + str(A[0].value).strip().lower(), z3.RealSort()))
            f = E.ufn("str2real", ty.StrSort, z3.RealSort())
            ok = E.ufn("is_float_str", ty.StrSort, z3.BoolSort())
            E.raise_edge(fr, st, z3.Not(ok(v.z)), "ValueError", f"L{node.lineno}")
            return V(REAL, f(v.z))
        return E.coerce(E.num(v, st, fr), REAL)
    if name == "str":
        v = E.ev(A[0], st, fr)
        if v.t.kind == "str":
            return v
        f = E.ufn(f"str_of_{v.z.sort()}", v.z.sort(), ty.StrSort)
        inv = E.ufn(f"str_of_{v.z.sort()}!inv", ty.StrSort, v.z.sort())
        x = z3.Const("sx", v.z.sort())
        ax = QForAll([x], inv(f(x)) == x, patterns=[f(x)])
        if not any(ax.eq(a) for a in E.extra_axioms):
            E.extra_axioms.append(ax)
            E.assumptions.add("A-STR: str(x) is injective per argument type")
        return V(STR, f(v.z))
    if name in ("max", "min"):
        vals = [E.num(E.ev(a, st, fr), st, fr) for a in A]
        res = vals[0]
        for v in vals[1:]:
            t = E.join_t(res.t, v.t)
            a, b = E.coerce(res, t), E.coerce(v, t)
            c = (a.z >= b.z) if name == "max" else (a.z <= b.z)
            res = V(t, z3.If(c, a.z, b.z))
        return res
    if name == "abs":
        v = E.num(E.ev(A[0], st, fr), st, fr)
        return V(v.t, z3.If(v.z >= 0, v.z, -v.z))
    if name in ("all", "any"):
        if isinstance(A[0], ast.GeneratorExp):
            return V(BOOL, E.quantify(A[0], st, fr, name == "all"))
        v = E.ev(A[0], st, fr)
        s, et = E.as_seq(v, st)
        so = seq_ops(et)
        i = fresh("ai", z3.IntSort())
        el = E.truthy(V(et, so.At(s, i)), st, fr)
        dom = z3.And(0 <= i, i < so.Len(s))
        if name == "all":
            return V(BOOL, QForAll([i], z3.Implies(dom, el), patterns=[so.At(s, i)]))
        return V(BOOL, z3.Exists([i], z3.And(dom, el)))
    if name == "sum":
        return builtin_sum(E, node, st, fr)
    if name == "list":
        if not A:
            raise CheckerError("list() without argument needs a type hint")
        v = E.ev(A[0], st, fr)
        if v.t.kind in ("list", "seqv", "pyconst"):
            s, et = E.as_seq(v, st)
            return V(ty.SeqV(et), s) if fr.spec else E.new_list(st, et, s)
        if v.t.kind == "dict":
            return E.new_list(st, v.t.args[0], E.dict_keys(st, v))
        if v.t.kind == "ref":
            q = E.prog.method(v.t.args[0], "__iter__")
            lq = "list_of:" + v.t.args[0]
            if lq in E.spec.fns:
                return E.apply_contract(E.spec.fns[lq], lq, {"self": v}, st, fr, node)
        raise CheckerError(f"{fr.qname}: list({v.t}) not modelled")
    if name == "isinstance":
        v = E.ev(A[0], st, fr)
        cname = A[1].id if isinstance(A[1], ast.Name) else ast.unparse(A[1])
        k = v.t.kind
        if cname in E.prog.enums:
            return V(BOOL, z3.BoolVal(k == "enum" and v.t.args[0] == cname))
        if cname == "str":
            return V(BOOL, z3.BoolVal(k == "str"))
        if cname in ("list", "List"):
            return V(BOOL, z3.BoolVal(k in ("list", "pyconst")))
        if k == "ref":
            return V(BOOL, z3.BoolVal(cname in E.prog.mro(v.t.args[0])))
        return V(BOOL, z3.BoolVal(False))
    if name == "callable":
        v = E.ev(A[0], st, fr)
        return V(BOOL, z3.BoolVal(v.t.kind in ("fn", "lambda", "funcref")))
    if name == "print":
        E.dropped.add("print(...) calls")
        return V(NONE, ty.null)
    if name == "repr":
        E.abstracted.add("repr(): opaque string")
        return V(STR, fresh("repr", ty.StrSort))
    if name == "bool":
        return V(BOOL, E.truthy(E.ev(A[0], st, fr), st, fr))
    if name == "iter":
        v = E.ev(A[0], st, fr)
        if v.t.kind != "list":
            raise CheckerError(f"iter({v.t}) not modelled")
        it = E.new_ref(st, ty.Iter(v.t.args[0]), "iter")
        E.hset(st, ("itsrc",), z3.Store(E.h(st, ("itsrc",)), it.z, v.z))
        E.hset(st, ("itpos",), z3.Store(E.h(st, ("itpos",)), it.z, z3.IntVal(0)))
        return it
    if name == "next":
        v = E.ev(A[0], st, fr)
        if v.t.kind == "iter":
            et = v.t.args[0]
            so = seq_ops(et)
            src = z3.Select(E.h(st, ("itsrc",)), v.z)
            pos = z3.Select(E.h(st, ("itpos",)), v.z)
            seq = z3.Select(E.h(st, ("list", et)), src)
            E.raise_edge(fr, st, pos >= so.Len(seq), "StopIteration", f"L{node.lineno}")
            E.hset(st, ("itpos",), z3.Store(E.h(st, ("itpos",)), v.z, pos + 1), v.z)
            return V(et, so.At(seq, pos))
        if v.t.kind == "ref":
            q = "next_of:" + v.t.args[0]
            if q in E.spec.fns:
                return E.apply_contract(E.spec.fns[q], q, {"self": v}, st, fr, node)
        raise CheckerError(f"{fr.qname}: next({v.t}) not modelled")
    if name == "set":
        hint = getattr(node, "_elem_t", None)
        if not A:
            if hint is None:
                raise CheckerError(f"{fr.qname}: set() needs a `locals` hint (line {node.lineno})")
            sv = E.new_ref(st, ty.Set(hint), "set")
            key = ("set", hint)
            E.hset(st, key, z3.Store(E.h(st, key), sv.z, z3.K(ty.zsort(hint), z3.BoolVal(False))))
            return sv
        raise CheckerError("set(iterable) not modelled")
    if name == "super":
        return V(T("super"), None, None)
    if name == "range":
        raise CheckerError(f"{fr.qname}: range() outside a for-loop/comprehension not modelled")
    if name == "sorted":
        E.abstracted.add("sorted(): result havoc'd (only used for messages)")
        v = E.ev(A[0], st, fr)
        return V(T("opaque"), None, None)
    if name == "dict":
        v = E.ev(A[0], st, fr) if A else None
        if v is not None and v.t.kind == "dict":
            d = E.new_ref(st, v.t, "dict")
            E.set_dict(st, d, E.dict_keys(st, v), E.dict_vals(st, v))
            return d
        raise CheckerError("dict() form not modelled")
    return NotImplemented


def builtin_sum(E, node, st, fr):
    from .engine import V, CheckerError, Frame, fresh
    A = node.args
    if isinstance(A[0], ast.GeneratorExp):
        g = A[0]
        gen = g.generators[0]
        kind, payload = E.comp_iter(gen, st, fr)
        if kind != "seq" or gen.ifs:
            raise CheckerError("sum over filtered/range generator not modelled")
        seq, et = payload
        x = fresh("sx", ty.zsort(et))
        sub = Frame(fr.qname, fr.module, fr.cls, fr.contract, fr.fn, old=fr.old, spec=True, binds=dict(fr.binds),
                    entry_locals=fr.entry_locals, loop_entry=fr.loop_entry)
        E.bind_target(gen.target, V(et, x), sub.binds)
        elt = E.ev(g.elt, st, sub)
        z = elt.z
        # elt must be Select(array, x) for a heap array (or a measure)
        if z3.is_select(z) and z.arg(1).eq(x):
            arr = z.arg(0)
            return V(elt.t, seq_ops(et).Sum(z.sort())(seq, arr))
        # general case: define a measure array by lambda abstraction
        arr = fresh("lam", z3.ArraySort(ty.zsort(et), z.sort()))
        y = fresh("ly", ty.zsort(et))
        st.assume(QForAll([y], z3.Select(arr, y) == z3.substitute(z, (x, y)), patterns=[z3.Select(arr, y)]))
        return V(elt.t, seq_ops(et).Sum(z.sort())(seq, arr))
    v = E.ev(A[0], st, fr)
    s, et = E.as_seq(v, st)
    so0 = seq_ops(et)
    # a sequence whose length the path condition fixes to a small constant is summed term by term
    known = None
    for k in range(0, 5):
        if E.quick_infeasible(st, so0.Len(s) != k):
            known = k
            break
    if len(A) == 2:
        # sum(list_of_lists, []) : concatenation, only for a sequence of known short length
        if et.kind != "list" or known is None:
            raise CheckerError("sum(x, start) is modelled only for a short sequence of lists (concatenation)")
        it = et.args[0]
        so1 = seq_ops(it)
        if isinstance(A[1], ast.List) and not A[1].elts:
            acc = so1.Empty
        else:
            acc, _t = E.as_seq(E.ev(A[1], st, fr), st)
        for j in range(known):
            lj = V(et, so0.At(s, z3.IntVal(j)))
            E.raise_edge(fr, st, lj.z == ty.null, "TypeError", f"L{node.lineno}")
            acc = so1.Cat(acc, E.list_seq(st, lj))
        return V(ty.SeqV(it), acc) if fr.spec else E.new_list(st, it, acc)
    if et.kind not in ("int", "real"):
        raise CheckerError("sum of non-numeric list")
    if known is not None:
        total = z3.IntVal(0) if et.kind == "int" else z3.RealVal(0)
        for j in range(known):
            total = total + so0.At(s, z3.IntVal(j))
        return V(et, total)
    ident = z3.Const(f"ident_{et.kind}", z3.ArraySort(ty.zsort(et), ty.zsort(et)))
    y = z3.Const("iy", ty.zsort(et))
    ax = QForAll([y], z3.Select(ident, y) == y, patterns=[z3.Select(ident, y)])
    if not any(ax.eq(a) for a in E.extra_axioms):
        E.extra_axioms.append(ax)
    return V(et, seq_ops(et).Sum(ty.zsort(et))(s, ident))


# =========================================================================== construction
def construct(E, cname, args, kwargs, st, fr, node):
    from .engine import V, CheckerError
    if cname in E.prog.enums:
        # Priority(value)
        v = args[0]
        res, conds = None, []
        for m, pv in E.prog.enums[cname].items():
            c = E.eq(v, E.const(pv), st, fr)
            conds.append(c)
            val = V(ty.Enum(cname), ty.enum_member(cname, m))
            res = val if res is None else E.ite(c, val, res)
        E.raise_edge(fr, st, z3.Not(z3.Or(*conds)), "ValueError", f"L{node.lineno}")
        return res
    if cname in ("ValueError", "KeyError", "EudoxiaException", "Exception", "AssertionError", "RuntimeError"):
        return V(ty.Ref("Exception"), ty.null)
    if cname not in E.prog.classes:
        raise CheckerError(f"{fr.qname}: construction of unknown class {cname}")
    if fr.spec:
        raise CheckerError("object construction inside a specification")
    obj = E.new_ref(st, ty.Ref(cname), cname.lower())
    q = E.prog.method(cname, "__init__")
    if q is not None:
        E.under_construction.append(obj.z)
        try:
            E.call_function(q, [obj] + args, kwargs, st, fr, node, is_init=True)
        finally:
            E.under_construction.pop()
    else:
        # NamedTuple / dataclass style: fields from class annotations, in order
        _m, cn = E.prog.classes[cname]
        fields = [s.target.id for s in cn.body if isinstance(s, ast.AnnAssign) and isinstance(s.target, ast.Name)]
        vals = dict(zip(fields, args))
        vals.update(kwargs)
        for fname, v in vals.items():
            E.set_field(st, obj, fname, v, init=True)
    return obj


# =========================================================================== function calls
def bind_params(E, q, fn: ast.FunctionDef, args, kwargs, st, fr):
    from .engine import V, CheckerError
    a = fn.args
    names = [p.arg for p in a.posonlyargs + a.args]
    out = {}
    for n, v in zip(names, args):
        out[n] = v
    if len(args) > len(names):
        raise CheckerError(f"too many positional args for {q}")
    for k, v in kwargs.items():
        if k in names or k in [p.arg for p in a.kwonlyargs]:
            out[k] = v
        elif a.kwarg is None:
            raise CheckerError(f"unexpected keyword {k} for {q}")
    defaults = a.defaults
    for p, d in zip(names[len(names) - len(defaults):], defaults):
        if p not in out:
            out[p] = E.ev(d, st, fr)
    for p, d in zip(a.kwonlyargs, a.kw_defaults):
        if p.arg not in out and d is not None:
            out[p.arg] = E.ev(d, st, fr)
    for n in names:
        if n not in out:
            raise CheckerError(f"missing argument {n} for {q}")
    return out


def call_function(E, q, args, kwargs, st, fr, node, is_init=False):
    from .engine import V, CheckerError, Frame, State, Outcome, fresh
    fn = E.prog.func(q)
    argmap = bind_params(E, q, fn, args, kwargs, st, fr)
    c = E.spec.fns.get(q)
    top = E.spec.fns.get(getattr(E, "verifying", "") or "")
    if top is not None and q in top.variants and not fr.spec:
        c = E.spec.fns[top.variants[q]]
    if top is not None and q in top.weak_calls and not fr.spec:
        return havoc_call(E, q, c, st, fr, node)
    if any(isinstance(n, (ast.Yield, ast.YieldFrom)) for n in ast.walk(fn)):
        return create_generator(E, q, c, argmap, st, fr, node)
    if c is not None:
        for n, t in c.params.items():
            if n in argmap and argmap[n].z is not None and argmap[n].t != t:
                argmap[n] = E.coerce(argmap[n], t)
        return apply_contract(E, c, q, argmap, st, fr, node)
    if fr.depth >= MAX_INLINE_DEPTH:
        raise CheckerError(f"inline depth exceeded at {q}")
    # ---- inline -----------------------------------------------------------------------
    E.stats["inlined"].add(q)
    mod, _, name = q.partition(":")
    cls = name.split(".")[0] if "." in name else None
    cs = State()
    cs.locals = dict(argmap)
    cs.heap = dict(st.heap)
    cs.pc = list(st.pc)
    sub = Frame(q, mod, cls, None, fn, old=fr.old, spec=fr.spec, binds=dict(fr.binds) if fr.spec else {},
                depth=fr.depth + 1, verify=fr.verify, entry_locals=dict(argmap) if fr.spec else {}, loop_entry=fr.loop_entry)
    sub.modsets = fr.modsets
    sub.label_prefix = fr.label_prefix
    sub._caller_qname = fr.qname
    # obligations inside inlined callees are attributed to the function being verified
    sub.qname_for_obligations = fr.qname
    outs = E.ex_block(fn.body, cs, sub)
    normals = []
    for o in outs:
        if o.kind == "raise":
            fr.exc.append(o_with_locals(o, st))
        elif o.kind in ("ret", "ok"):
            o.st.locals = dict(o.st.locals)
            o.st.locals["$ret"] = o.val if o.val is not None else V(NONE, ty.null)
            normals.append(o.st)
        else:
            raise CheckerError(f"{q}: stray {o.kind} outside loop")
    if not normals:
        st.assume(z3.BoolVal(False))
        return V(NONE, ty.null)
    m = E.merge_states(normals) if len(normals) > 1 else normals[0]
    st.heap = m.heap
    st.pc = m.pc
    ret = m.locals.get("$ret")
    if ret is None:
        raise CheckerError(f"{q}: return values of different shapes cannot be merged")
    return ret


def havoc_call(E, q, c, st, fr, node):
    """The callee may do anything: every heap location changes arbitrarily, it may allocate, return any value of its
    declared type or raise.  Trivially valid for every function - used where a caller's clause does not depend on it."""
    from .engine import V, Outcome, fresh
    E.abstracted.add(f"call to {q} treated as 'may do anything' (havoc of the whole heap) in the proof of {E.verifying}")
    keys = set(st.heap) | set(E.heap0)
    olda = E.alloc(st)
    for key in keys:
        if key == ("alloc",):
            continue
        st.heap[key] = fresh("any_" + str(key[0]), E.h(st, key).sort())
        st.note_write(key, None)
    newa = fresh("any_alloc", olda.sort())
    st.heap[("alloc",)] = newa
    st.note_write(("alloc",), None)
    r = fresh("r", ty.RefSort)
    st.assume(QForAll([r], z3.Implies(z3.Select(olda, r), z3.Select(newa, r)), patterns=[z3.Select(olda, r)]))
    E.alloc_from_initial(st)
    E.wf_keys(st, [k for k in keys if k != ("alloc",)])
    es = st.copy()
    sel = fresh("raised", z3.BoolSort())
    es.assume(sel, True)
    fr.exc.append(Outcome("raise", es, None, "Exception", f"{q}"))
    st.assume(z3.Not(sel), True)
    if c is not None and c.returns is not None and c.returns.kind != "none":
        res = V(c.returns, fresh("any_res", ty.zsort(c.returns)))
        if ty.is_reflike(c.returns):
            st.assume(z3.Or(res.z == ty.null, z3.Select(newa, res.z)))
        return res
    return V(NONE, ty.null)


def create_generator(E, q, c, argmap, st, fr, node):
    """Calling a generator function runs none of its body: it returns a generator object.
    The generator's `requires` (its start condition) is checked at creation."""
    from .engine import V, CheckerError, Frame, short
    if c is None or not c.gen:
        gcls = "Generator"
        if "Generator" not in E.spec.classes:
            E.spec.cls("Generator", {})
        E.abstracted.add(f"generator {q}: opaque generator object")
        return E.new_ref(st, ty.Ref(gcls), "gen")
    g = E.new_ref(st, ty.Ref(c.gen.get("object_class", "TickGen")), "gen")
    if "self" in argmap:
        E.set_field(st, g, "owner", argmap["self"], init=True)
    mod, _, name = q.partition(":")
    cfr = Frame(q, mod, name.split(".")[0] if "." in name else None, c, None, old=None, spec=True, entry_locals=dict(argmap))
    for i, r in enumerate(c.requires):
        gl = E.sev_bool(r, view(st, dict(argmap)), cfr)
        E.oblige(fr, st, "pre", f"{short(q)}#start:{i}", gl, info=r)
    return g


def o_with_locals(o, st):
    # an exception leaving an inlined callee: caller locals are restored
    o.st.locals = dict(st.locals)
    return o


def view(st, locals_):
    from .engine import State
    v = State()
    v.locals = locals_
    v.heap = st.heap
    v.pc = st.pc
    return v


def apply_contract(E, c: FnContract, q, argmap, st, fr, node):
    from .engine import V, CheckerError, Frame, State, Outcome, fresh, short
    E.stats["contracts_used"].add(q)
    mod, _, name = q.partition(":")
    cls = name.split(".")[0] if "." in name else None
    n = fr.callsite_counts.get(q, 0)
    # call sites are numbered per callee in source order of first evaluation
    site_key = (q, getattr(node, "lineno", 0), getattr(node, "col_offset", 0))
    sites = fr.callsite_counts.setdefault("$sites", {})
    if site_key not in sites:
        sites[site_key] = len([k for k in sites if k[0] == q])
    site = sites[site_key]
    pre = State()
    pre.locals = dict(argmap)
    pre.heap = dict(st.heap)
    pre.pc = st.pc
    cfr = Frame(q, mod, cls, c, None, old=None, spec=True, entry_locals=dict(argmap))
    # ---- requires ------------------------------------------------------------------------
    for i, r in enumerate(c.requires):
        g = E.sev_bool(r, view(st, dict(argmap)), cfr)
        if not fr.spec:
            E.oblige(fr, st, "pre", f"{short(q)}#{site}:{i}", g, info=r)
        st.assume(g)
    if fr.spec and (c.modifies or c.raises):
        raise CheckerError(f"specification calls impure function {q}")
    # ---- havoc -----------------------------------------------------------------------------
    if c.allocates and not fr.spec:
        E.assume_imm_wf(st)   # what allocated objects reference is allocated (so results fresh w.r.t. this point differ from it)
    cfr.old = pre
    ms = E.modset(c, view(pre, dict(argmap)), cfr)
    E.havoc_modset(st, ms, pre, allocates=c.allocates)
    # ---- exceptional outcomes ----------------------------------------------------------------
    sel = fresh("raised", z3.BoolSort()) if c.raises else None
    for exc, posts in c.raises.items():
        es = st.copy()
        es.assume(sel, True)
        for p in posts:
            es.assume(E.sev_bool(p, view(es, dict(argmap)), cfr))
        es.locals = dict(st.locals)
        fr.exc.append(Outcome("raise", es, None, exc, f"{short(q)}#{site}"))
    # ---- normal outcome ------------------------------------------------------------------------
    if sel is not None:
        st.assume(z3.Not(sel), True)
    res = None
    binds = {}
    if c.returns is not None and c.returns.kind != "none":
        res = V(c.returns, fresh("res_" + name.split(".")[-1], ty.zsort(c.returns)))
        binds["result"] = res
        if ty.is_reflike(c.returns) and c.returns.kind in ("list", "dict", "set"):
            pass
    # while the callee's postcondition is being ASSUMED, every fresh(x) in it also carries this call site's birth stamp
    # (an object is fresh at exactly one call, so the stamp is well defined); the stamp survives path-condition pruning
    E._births = getattr(E, "_births", 0) + 1
    E._assume_site = E._births
    try:
        for e in c.ensures:
            st.assume(E.sev_bool(e, view(st, dict(argmap)), cfr, binds))
    finally:
        E._assume_site = None
    if res is not None and not fr.spec:
        # keep the temporary reachable: facts about an intermediate result (p.runtime_status().get_ops(...)) must
        # survive path-condition pruning at the next loop head
        st.locals["$tmp%d" % next(_tmp_counter)] = res
    E.wf_after_havoc(st, ms)
    return res if res is not None else V(NONE, ty.null)


# =========================================================================== methods
def method_call(E, recv, meth, args, kwargs, st, fr, node):
    from .engine import V, CheckerError, Frame, State, fresh, PYCONST
    where = f"L{getattr(node, 'lineno', '?')}"
    k = recv.t.kind
    if k == "modref":
        return module_call(E, recv.py, meth, args, kwargs, st, fr, node)
    if k == "super":
        base = E.prog.class_bases(fr.cls)[0]
        q = E.prog.method(base, meth)
        selfv = st.locals["self"]
        return E.call_function(q, [V(ty.Ref(fr.cls), selfv.z)] + args, kwargs, st, fr, node)
    if k == "ref":
        cls = recv.t.args[0]
        if cls == "Logger":
            E.dropped.add("logger.* calls")
            return V(NONE, ty.null)
        q = E.prog.method(cls, meth)
        if q is None:
            ext = f"ext:{cls}.{meth}"
            if ext in E.spec.fns:
                c = E.spec.fns[ext]
                names = ["self"] + list(c.params)
                am = dict(zip(names, [recv] + args))
                am.update(kwargs)
                return apply_contract(E, c, ext, am, st, fr, node)
            raise CheckerError(f"{fr.qname}: method {cls}.{meth} not found ({where})")
        return E.call_function(q, [recv] + args, kwargs, st, fr, node)
    if k == "list":
        et = recv.t.args[0]
        so = seq_ops(et)
        seq = E.list_seq(st, recv)
        if fr.spec and meth not in ("index", "copy"):
            raise CheckerError(f"list.{meth} in a specification")
        if meth == "append":
            E.set_list_seq(st, recv, so.App(seq, E.coerce(args[0], et).z))
            return V(NONE, ty.null)
        if meth == "extend":
            s2, _ = E.as_seq(args[0], st)
            E.set_list_seq(st, recv, so.Cat(seq, s2))
            return V(NONE, ty.null)
        if meth == "remove":
            x = E.coerce(args[0], et).z
            E.raise_edge(fr, st, z3.Not(so.Mem(seq, x)), "ValueError", where)
            E.set_list_seq(st, recv, so.Rem(seq, x))
            return V(NONE, ty.null)
        if meth == "pop":
            n = so.Len(seq)
            E.raise_edge(fr, st, n == 0, "IndexError", where)
            if args and E.is_constz(args[0].z) and z3.simplify(args[0].z).as_long() == 0:
                E.set_list_seq(st, recv, so.Drop(seq, 1))
                return V(et, so.At(seq, 0))
            if not args:
                E.set_list_seq(st, recv, so.Take(seq, n - 1))
                return V(et, so.At(seq, n - 1))
            raise CheckerError("list.pop(i) for general i not modelled")
        if meth == "index":
            x = E.coerce(args[0], et).z
            E.raise_edge(fr, st, z3.Not(so.Mem(seq, x)), "ValueError", where)
            return V(INT, so.Idx(seq, x))
        if meth == "copy":
            return E.new_list(st, et, seq)
        if meth == "sort":
            return list_sort(E, recv, kwargs, st, fr, node)
        if meth == "clear":
            E.set_list_seq(st, recv, so.Empty)
            return V(NONE, ty.null)
    if k == "dict":
        kt, vt = recv.t.args[:2]
        so = seq_ops(kt)
        keys, vals = E.dict_keys(st, recv), E.dict_vals(st, recv)
        if meth == "get":
            kz = E.coerce(args[0], kt).z
            present = so.Mem(keys, kz)
            dflt = args[1] if len(args) > 1 else V(NONE, ty.null)
            return E.ite(present, V(vt, z3.Select(vals, kz)), dflt)
        if meth == "keys":
            return V(ty.SeqV(kt), keys)
        if meth == "values":
            so2 = seq_ops(vt)
            R = fresh("vals", so2.S)
            j = fresh("vj", z3.IntSort())
            st.assume(so2.Len(R) == so.Len(keys))
            st.assume(QForAll([j], z3.Implies(z3.And(0 <= j, j < so.Len(keys)), so2.At(R, j) == z3.Select(vals, so.At(keys, j))),
                                patterns=[so2.At(R, j)]))
            return V(ty.SeqV(vt), R)
        if meth == "items":
            tt = ty.Tuple(kt, vt)
            so2 = seq_ops(tt)
            dt, mk, accs = ty.tuple_sort(tt)
            R = fresh("items", so2.S)
            j = fresh("ij", z3.IntSort())
            st.assume(so2.Len(R) == so.Len(keys))
            st.assume(QForAll([j], z3.Implies(z3.And(0 <= j, j < so.Len(keys)),
                                                so2.At(R, j) == mk(so.At(keys, j), z3.Select(vals, so.At(keys, j)))),
                                patterns=[so2.At(R, j)]))
            return V(ty.SeqV(tt), R)
        if meth == "pop":
            kz = E.coerce(args[0], kt).z
            present = so.Mem(keys, kz)
            if len(args) < 2:
                E.raise_edge(fr, st, z3.Not(present), "KeyError", where)
            val = V(vt, z3.Select(vals, kz))
            res = val if len(args) < 2 else E.ite(present, val, args[1])
            E.set_dict(st, recv, so.Rem(keys, kz), None)
            return res
        if meth == "copy":
            d = E.new_ref(st, recv.t, "dict")
            E.set_dict(st, d, keys, vals)
            return d
    if k == "seqv":
        pass
    if k == "set":
        kt = recv.t.args[0]
        if meth == "add":
            key = ("set", kt)
            arr = E.set_arr(st, recv)
            E.hset(st, key, z3.Store(E.h(st, key), recv.z, z3.Store(arr, E.coerce(args[0], kt).z, True)), recv.z)
            return V(NONE, ty.null)
    if k == "str":
        if meth == "strip":
            f = E.ufn("str_strip", ty.StrSort, ty.StrSort)
            ax = [f(ty.str_lit("")) == ty.str_lit("")]
            x = z3.Const("ssx", ty.StrSort)
            ax.append(QForAll([x], f(f(x)) == f(x), patterns=[f(f(x))]))
            for a in ax:
                if not any(a.eq(b) for b in E.extra_axioms):
                    E.extra_axioms.append(a)
            return V(STR, f(recv.z))
        if meth == "split":
            f = E.ufn("str_split", ty.StrSort, ty.StrSort, ty.seq_sort(STR))
            seqz = f(recv.z, args[0].z)
            return V(ty.SeqV(STR), seqz) if fr.spec else E.new_list(st, STR, seqz)
        if meth == "join":
            s, et = E.as_seq(args[0], st)
            f = E.ufn("str_join", ty.StrSort, ty.seq_sort(STR), ty.StrSort)
            return V(STR, f(recv.z, s))
    raise CheckerError(f"{fr.qname}: method {meth} on {recv.t} not modelled ({where})")


def list_sort(E, recv, kwargs, st, fr, node):
    """list.sort(key=lambda x: x[0], reverse=bool): assumed contract - stable sorted permutation."""
    from .engine import V, CheckerError, Frame, fresh
    et = recv.t.args[0]
    so = seq_ops(et)
    seq = E.list_seq(st, recv)
    R = fresh("sorted", so.S)
    E.assumptions.add("list.sort: result is a permutation of the input, sorted by the key (stable)")
    x = fresh("px", so.E)
    st.assume(so.Len(R) == so.Len(seq))
    st.assume(QForAll([x], so.Mem(R, x) == so.Mem(seq, x), patterns=[so.Mem(R, x)]))
    st.assume(QForAll([x], so.Mem(R, x) == so.Mem(seq, x), patterns=[so.Mem(seq, x)]))
    st.assume(z3.Implies(so.NoDup(seq), so.NoDup(R)))
    key = kwargs.get("key")
    rev = kwargs.get("reverse")
    i, j = fresh("si", z3.IntSort()), fresh("sj", z3.IntSort())

    def keyof(elem):
        if key is None:
            return elem
        lam = key.py
        sub = Frame(fr.qname, fr.module, fr.cls, fr.contract, fr.fn, old=fr.old, spec=True,
                    binds={lam.args.args[0].arg: V(et, elem)}, entry_locals=fr.entry_locals)
        return E.ev(lam.body, st, sub).z
    ki, kj = keyof(so.At(R, i)), keyof(so.At(R, j))
    desc = rev is not None and z3.is_true(z3.simplify(rev.z))
    order = (ki >= kj) if desc else (ki <= kj)
    st.assume(QForAll([i, j], z3.Implies(z3.And(0 <= i, i < j, j < so.Len(R)), order),
                        patterns=[z3.MultiPattern(so.At(R, i), so.At(R, j))]))
    E.set_list_seq(st, recv, R)
    return V(NONE, ty.null)


def module_call(E, mod, fn, args, kwargs, st, fr, node):
    from .engine import V, CheckerError, fresh
    if mod in ("logger", "logging"):
        E.dropped.add("logger.* calls")
        return V(NONE, ty.null)
    if mod == "math" and fn == "floor":
        v = E.coerce(args[0], REAL)
        return V(INT, z3.ToInt(v.z))
    if mod == "np":
        if fn in ("log", "sqrt"):
            f = E.ufn("np_" + fn, z3.RealSort(), z3.RealSort())
            v = E.coerce(args[0], REAL)
            E.assumptions.add(f"numpy.{fn}: uninterpreted real function" + (" with log(n) >= 0 for n >= 1" if fn == "log" else " with sqrt(n) > 0 for n > 0"))
            if fn == "log":
                st.assume(z3.Implies(v.z >= 1, f(v.z) >= 0))
            else:
                st.assume(z3.Implies(v.z > 0, f(v.z) > 0))
            return V(REAL, f(v.z))
        if fn == "power":
            a, b = args
            E.assumptions.add("numpy.power(n,2) = n*n; numpy.power(2,n) in {2,4,8} for n in {1,2,3}")
            if E.is_constz(b.z) and z3.simplify(b.z).as_long() == 2:
                return E.mul(a, a)
            if E.is_constz(a.z) and z3.simplify(a.z).as_long() == 2:
                f = E.ufn("pow2", z3.RealSort(), z3.RealSort())
                br = E.coerce(b, REAL).z
                for kk in (1, 2, 3):
                    ax = f(z3.RealVal(kk)) == 2 ** kk
                    if not any(ax.eq(x) for x in E.extra_axioms):
                        E.extra_axioms.append(ax)
                st.assume(f(br) > 0)
                return V(REAL, f(br))
        if fn in ("mean", "percentile"):
            E.assumptions.add(f"numpy.{fn}: uninterpreted; raises on an empty sequence")
            s, et = E.as_seq(args[0], st)
            so = seq_ops(et)
            E.raise_edge(fr, st, so.Len(s) == 0, "IndexError", f"L{node.lineno}")
            f = E.ufn("np_" + fn + "_" + str(so.S), so.S, *( [z3.RealSort()] if fn == "percentile" else []), z3.RealSort())
            return V(REAL, f(s, E.coerce(args[1], REAL).z) if fn == "percentile" else f(s))
    if mod == "time":
        return V(REAL, fresh("time", z3.RealSort()))
    if mod == "uuid" and fn == "uuid4":
        E.assumptions.add("A-UUID: uuid.uuid4() returns an identifier different from every existing one (modelled as a fresh object)")
        return E.new_ref(st, ty.Ref("UUID"), "uuid")
    raise CheckerError(f"{fr.qname}: external call {mod}.{fn} not modelled (line {node.lineno})")


def dynamic_fn_call(E, fv, args, st, fr, node):
    """Call through a function-valued field (Segment.scaling_func): dispatch over the functions the
    real SCALING_FUNCS table holds; any other callable is an uninterpreted function."""
    from .engine import V, CheckerError, fresh
    table = E.fn_table()
    res = None
    unk = E.ufn("unknown_callable", ty.RefSort, z3.RealSort(), z3.RealSort(), z3.RealSort())
    a0, a1 = E.coerce(args[0], REAL), E.coerce(args[1], REAL)
    res = V(REAL, unk(fv.z, a0.z, a1.z))
    for q, const in table.items():
        saved_exc = fr.exc
        fr.exc = []
        base = len(st.pc)
        st.pc.append(fv.z == const)
        r = E.call_function(q, list(args), {}, st, fr, node)
        added = st.pc[base + 1:]
        del st.pc[base:]
        st.pc.extend(z3.Implies(fv.z == const, a) for a in added)
        for o in fr.exc:
            saved_exc.append(o)
        fr.exc = saved_exc
        res = E.ite(fv.z == const, E.coerce(r, REAL), res)
    return res

"""Axiomatised finite sequences (Dafny/Boogie style), sums and histograms.

Every axiom here is a theorem about finite sequences / finite maps; the axioms are part of
the trusted base and are validated separately (pyvc/validate_prelude.py: exhaustive
interpretation over small concrete sequences).  Triggers are explicit; the prover runs with
MBQI off, so `unsat` never depends on model-based instantiation.
"""
from __future__ import annotations
import z3
from . import ty

FULL_CNT = False
I = z3.IntSort()
R = z3.RealSort()
B = z3.BoolSort()


class SeqOps:
    """Function symbols and axioms for sequences over one element sort."""

    def __init__(self, esort: z3.SortRef, ssort: z3.SortRef):
        n = str(esort)
        self.E, self.S = esort, ssort
        F = z3.Function
        self.Len = F(f"Len_{n}", ssort, I)
        self.At = F(f"At_{n}", ssort, I, esort)
        self.Empty = z3.Const(f"Empty_{n}", ssort)
        self.App = F(f"App_{n}", ssort, esort, ssort)
        self.Cat = F(f"Cat_{n}", ssort, ssort, ssort)
        self.Take = F(f"Take_{n}", ssort, I, ssort)
        self.Drop = F(f"Drop_{n}", ssort, I, ssort)
        self.Rem = F(f"RemFirst_{n}", ssort, esort, ssort)
        self.Mem = F(f"Mem_{n}", ssort, esort, B)
        self.NoDup = F(f"NoDup_{n}", ssort, B)
        self.Idx = F(f"IdxOf_{n}", ssort, esort, I)
        self.Sorted = None
        self.sum_fns: dict[str, z3.FuncDeclRef] = {}
        self.cnt_fns: dict[str, tuple] = {}
        self._axioms = None

    # ---- sums over a measure array elem -> Real / Int ------------------------------
    def Sum(self, vsort: z3.SortRef) -> z3.FuncDeclRef:
        key = str(vsort)
        if key not in self.sum_fns:
            self.sum_fns[key] = z3.Function(f"Sum_{self.E}_{key}", self.S, z3.ArraySort(self.E, vsort), vsort)
            self._axioms = None
        return self.sum_fns[key]

    def Cnt(self, vsort: z3.SortRef):
        """Cnt(keys, vals, v): number of keys k in the sequence with vals[k] == v."""
        key = str(vsort)
        if key not in self.cnt_fns:
            f = z3.Function(f"Cnt_{self.E}_{key}", self.S, z3.ArraySort(self.E, vsort), vsort, I)
            w = z3.Function(f"CntWit_{self.E}_{key}", self.S, z3.ArraySort(self.E, vsort), vsort, self.E)
            self.cnt_fns[key] = (f, w)
            self._axioms = None
        return self.cnt_fns[key]

    def axioms(self) -> list:
        if self._axioms is not None:
            return self._axioms
        S, E = self.S, self.E
        s, t = z3.Consts("s t", S)
        x, y = z3.Consts("x y", E)
        i, j, n = z3.Ints("i j n")
        Len, At, Empty, App, Cat, Take, Drop, Rem, Mem, NoDup, Idx = (
            self.Len, self.At, self.Empty, self.App, self.Cat, self.Take, self.Drop, self.Rem,
            self.Mem, self.NoDup, self.Idx)
        A = z3.ForAll
        ax = []

        def fa(vs, body, *pats):
            # several pats = ONE multi-pattern (all must match)
            pat = pats[0] if len(pats) == 1 else z3.MultiPattern(*pats)
            ax.append(A(vs, body, patterns=[pat], qid=f"seq_{self.E}_{len(ax)}"))

        # length
        fa([s], Len(s) >= 0, Len(s))
        ax.append(Len(Empty) == 0)
        fa([s], z3.Implies(Len(s) == 0, s == Empty), Len(s))
        ax.append(NoDup(Empty))
        fa([y], z3.Not(Mem(Empty, y)), Mem(Empty, y))
        # App (snoc)
        fa([s, x], Len(App(s, x)) == Len(s) + 1, App(s, x))
        fa([s, x], At(App(s, x), Len(s)) == x, App(s, x))
        fa([s, x, i], z3.Implies(z3.And(0 <= i, i < Len(s)), At(App(s, x), i) == At(s, i)), At(App(s, x), i))
        fa([s, x, y], Mem(App(s, x), y) == z3.Or(Mem(s, y), y == x), Mem(App(s, x), y))
        fa([s, x], Mem(App(s, x), x), App(s, x))
        fa([s, x], NoDup(App(s, x)) == z3.And(NoDup(s), z3.Not(Mem(s, x))), NoDup(App(s, x)))
        # Mem / At / IdxOf
        fa([s, i], z3.Implies(z3.And(0 <= i, i < Len(s)), Mem(s, At(s, i))), At(s, i))
        fa([s, x], z3.Implies(Mem(s, x), z3.And(0 <= Idx(s, x), Idx(s, x) < Len(s), At(s, Idx(s, x)) == x)), Mem(s, x))
        fa([s, i], z3.Implies(z3.And(NoDup(s), 0 <= i, i < Len(s)), Idx(s, At(s, i)) == i), At(s, i))
        # IdxOf is the FIRST occurrence
        fa([s, i], z3.Implies(z3.And(0 <= i, i < Len(s)), Idx(s, At(s, i)) <= i), At(s, i))
        # Take
        fa([s, n], z3.Implies(z3.And(0 <= n, n <= Len(s)), Len(Take(s, n)) == n), Take(s, n))
        fa([s, n], z3.Implies(n == Len(s), Take(s, n) == s), Take(s, n))
        fa([s, n], z3.Implies(n <= 0, Take(s, n) == Empty), Take(s, n))
        fa([s, x, n], z3.Implies(z3.And(0 <= n, n <= Len(s)), Take(App(s, x), n) == Take(s, n)), Take(App(s, x), n))
        fa([s, n, i], z3.Implies(z3.And(0 <= i, i < n, n <= Len(s)), At(Take(s, n), i) == At(s, i)), At(Take(s, n), i))
        fa([s, n, x], z3.Implies(Mem(Take(s, n), x), Mem(s, x)), Mem(Take(s, n), x))
        fa([s, n, x], z3.Implies(z3.And(Mem(Take(s, n), x), 0 <= n, n <= Len(s)), z3.And(Idx(s, x) < n, Idx(Take(s, n), x) == Idx(s, x))),
           Mem(Take(s, n), x))
        fa([s, n], z3.Implies(NoDup(s), NoDup(Take(s, n))), NoDup(Take(s, n)))
        # Drop
        fa([s, n], z3.Implies(z3.And(0 <= n, n <= Len(s)), Len(Drop(s, n)) == Len(s) - n), Drop(s, n))
        fa([s, n], z3.Implies(n >= Len(s), Drop(s, n) == Empty), Drop(s, n))
        fa([s, n], z3.Implies(n <= 0, Drop(s, n) == s), Drop(s, n))
        fa([s, n, i], z3.Implies(z3.And(0 <= n, 0 <= i, i + n < Len(s)), At(Drop(s, n), i) == At(s, i + n)), At(Drop(s, n), i))
        fa([s, n, x], z3.Implies(Mem(Drop(s, n), x), Mem(s, x)), Mem(Drop(s, n), x))
        fa([s, n, i], z3.Implies(z3.And(0 <= n, n <= i, i < Len(s)), Mem(Drop(s, n), At(s, i))), Drop(s, n), At(s, i))
        fa([s, n], z3.Implies(NoDup(s), NoDup(Drop(s, n))), NoDup(Drop(s, n)))
        fa([s, n, x], z3.Implies(z3.And(NoDup(s), 0 <= n, n <= Len(s), Mem(s, x)),
                                  Mem(Drop(s, n), x) == (Idx(s, x) >= n)), Mem(Drop(s, n), x))
        # Cat
        fa([s, t], Len(Cat(s, t)) == Len(s) + Len(t), Cat(s, t))
        fa([s, t, i], z3.Implies(z3.And(0 <= i, i < Len(s)), At(Cat(s, t), i) == At(s, i)), At(Cat(s, t), i))
        fa([s, t, i], z3.Implies(z3.And(Len(s) <= i, i < Len(s) + Len(t)), At(Cat(s, t), i) == At(t, i - Len(s))), At(Cat(s, t), i))
        fa([s, t, x], Mem(Cat(s, t), x) == z3.Or(Mem(s, x), Mem(t, x)), Mem(Cat(s, t), x))
        fa([s, t, x], Cat(s, App(t, x)) == App(Cat(s, t), x), Cat(s, App(t, x)))
        fa([s], Cat(s, Empty) == s, Cat(s, Empty))
        fa([s], Cat(Empty, s) == s, Cat(Empty, s))
        # RemFirst
        fa([s, x], z3.Implies(Mem(s, x), Len(Rem(s, x)) == Len(s) - 1), Rem(s, x))
        fa([s, x], z3.Implies(z3.Not(Mem(s, x)), Rem(s, x) == s), Rem(s, x))
        fa([s, x, y], z3.Implies(Mem(Rem(s, x), y), Mem(s, y)), Mem(Rem(s, x), y))
        fa([s, x, y], z3.Implies(z3.And(Mem(s, y), y != x), Mem(Rem(s, x), y)), Rem(s, x), Mem(s, y))
        fa([s, x], z3.Implies(NoDup(s), z3.And(NoDup(Rem(s, x)), z3.Not(Mem(Rem(s, x), x)))), Rem(s, x))
        # element positions after removing the first occurrence of x
        fa([s, x, i], z3.Implies(z3.And(Mem(s, x), 0 <= i, i < Idx(s, x)), At(Rem(s, x), i) == At(s, i)), At(Rem(s, x), i))
        fa([s, x, i], z3.Implies(z3.And(Mem(s, x), Idx(s, x) <= i, i < Len(s) - 1), At(Rem(s, x), i) == At(s, i + 1)), At(Rem(s, x), i))
        # sums
        for key, Sum in self.sum_fns.items():
            vs = Sum.range()
            m = z3.Const("m", z3.ArraySort(E, vs))
            v = z3.Const("v", vs)
            zero = z3.RealVal(0) if vs == R else z3.IntVal(0)
            fa([m], Sum(Empty, m) == zero, Sum(Empty, m))
            fa([s, x, m], Sum(App(s, x), m) == Sum(s, m) + m[x], Sum(App(s, x), m))
            fa([s, t, m], Sum(Cat(s, t), m) == Sum(s, m) + Sum(t, m), Sum(Cat(s, t), m))
            fa([s, x, m], z3.Implies(Mem(s, x), Sum(Rem(s, x), m) == Sum(s, m) - m[x]), Sum(Rem(s, x), m))
            fa([s, m, x, v], z3.Implies(z3.Not(Mem(s, x)), Sum(s, z3.Store(m, x, v)) == Sum(s, m)), Sum(s, z3.Store(m, x, v)))
            fa([s, m, x, v], z3.Implies(z3.And(Mem(s, x), NoDup(s)), Sum(s, z3.Store(m, x, v)) == Sum(s, m) - m[x] + v),
               Sum(s, z3.Store(m, x, v)))
            fa([s, m, n], z3.Implies(z3.And(0 <= n, n <= Len(s)), Sum(Drop(s, n), m) == Sum(s, m) - Sum(Take(s, n), m)),
               Sum(Drop(s, n), m))
        for key, (Cnt, Wit) in self.cnt_fns.items():
            vs = Cnt.domain(2)
            m = z3.Const("m", z3.ArraySort(E, vs))
            v, w = z3.Consts("v w", vs)
            b2i = lambda c: z3.If(c, 1, 0)
            fa([m, v], Cnt(Empty, m, v) == 0, Cnt(Empty, m, v))
            fa([s, x, m, v], Cnt(App(s, x), m, v) == Cnt(s, m, v) + b2i(m[x] == v), Cnt(App(s, x), m, v))
            fa([s, m, v], z3.And(0 <= Cnt(s, m, v), Cnt(s, m, v) <= Len(s)), Cnt(s, m, v))
            fa([s, m, x, w, v], z3.Implies(z3.Not(Mem(s, x)), Cnt(s, z3.Store(m, x, w), v) == Cnt(s, m, v)), Cnt(s, z3.Store(m, x, w), v))
            fa([s, m, x, w, v], z3.Implies(z3.And(Mem(s, x), NoDup(s)),
                                           Cnt(s, z3.Store(m, x, w), v) == Cnt(s, m, v) - b2i(m[x] == v) + b2i(w == v)),
               Cnt(s, z3.Store(m, x, w), v))
            # restricted-trigger forms (need the select m[x] to be present): a member with the value makes the count
            # positive; a full count means every member has the value
            fa([s, m, v, x], z3.Implies(z3.And(Mem(s, x), m[x] == v), Cnt(s, m, v) >= 1), Cnt(s, m, v), Mem(s, x), m[x])
            fa([s, m, v, x], z3.Implies(z3.And(Cnt(s, m, v) == Len(s), Mem(s, x)), m[x] == v), Cnt(s, m, v), Mem(s, x), m[x])
            # a count below the length has a witness: some member does not have the value (single-term trigger)
            fa([s, m, v], z3.Implies(Cnt(s, m, v) < Len(s), z3.And(Mem(s, Wit(s, m, v)), m[Wit(s, m, v)] != v)), Cnt(s, m, v))
            if FULL_CNT:
                # all-equal <=> count is the length   (cross-product triggers: only enabled where needed)
                fa([s, m, v, x], z3.Implies(z3.And(Cnt(s, m, v) == Len(s), Mem(s, x)), m[x] == v), Cnt(s, m, v), Mem(s, x))
                # a member with the value forces the count to be positive
                fa([s, m, v, x], z3.Implies(z3.And(Mem(s, x), m[x] == v), Cnt(s, m, v) >= 1), Cnt(s, m, v), Mem(s, x))
        self._axioms = ax
        return ax


_ops: dict[str, SeqOps] = {}


def seq_ops(elem_t: ty.T) -> SeqOps:
    key = ty.sort_key(elem_t)
    if key not in _ops:
        _ops[key] = SeqOps(ty.zsort(elem_t), ty.seq_sort(elem_t))
    return _ops[key]


def all_axioms() -> list:
    out = []
    for o in _ops.values():
        out.extend(o.axioms())
    out.extend(ty.str_distinct_axiom())
    return out

"""./check <property> --tier quick|thorough [--replay file]

Exit codes: 0 property held on everything explored; 1 violation (VIOLATION line printed);
2 undecided (contract attachment lost); 3 checker crash."""
from __future__ import annotations
import argparse
import hashlib
import importlib
import json
import logging
import os
import sys
import time
import traceback

HERE = os.path.dirname(os.path.dirname(os.path.abspath(__file__)))
REPO = os.environ.get("VERIF_REPO", "/repo")


def prepare_program(prog):
    """mechanical extractions some contract modules need (rebuilt from the current source on every run)"""
    import contracts
    out = {}
    for name in contracts.MODULES:
        m = importlib.import_module("contracts." + name)
        if hasattr(m, "prepare"):
            try:
                out[name] = m.prepare(prog)
            except KeyError as e:
                # the contracts of this module lost their attachment; the other modules are unaffected
                out.setdefault("_errors", []).append(f"{name}: {e}")
    return out


def load_spec():
    from pyvc.spec import Spec
    S = Spec()
    from contracts import schema
    schema.declare(S)
    import contracts
    mods = []
    for name in contracts.MODULES:
        mods.append(importlib.import_module("contracts." + name))
    for phase in ("declare", "declare2", "declare3", "declare4"):
        for m in mods:
            if hasattr(m, phase):
                getattr(m, phase)(S)
    return S


def functions_for(S, pid: str):
    from pyvc.spec import split_tags
    out = []
    for q, c in S.fns.items():
        if c.trusted or c.monitor_only:
            continue
        tagged = pid in c.owners
        if not tagged:
            texts = list(c.ensures) + [i for l in c.loops.values() for i in l.inv]
            for v in c.raises.values():
                texts += v
            if c.gen:
                texts += [p for _l, p in c.gen.get("step_post", [])] + [x for v in c.gen.get("yield_inv", {}).values() for x in v]
            tagged = any(pid in (split_tags(t)[0] or ()) for t in texts)
        if tagged:
            out.append(q)
    return out


def tree_hash():
    h = hashlib.sha256()
    for root in (os.path.join(REPO, "eudoxia"), os.path.join(HERE, "pyvc"), os.path.join(HERE, "contracts")):
        for dp, _d, files in sorted(os.walk(root)):
            for f in sorted(files):
                if f.endswith(".py"):
                    p = os.path.join(dp, f)
                    h.update(p.encode())
                    h.update(open(p, "rb").read())
    return h.hexdigest()[:24]


def verify_functions(prog, S, qnames, timeout_ms, jobs):
    """Returns dict qname -> {"results": [Result json + tags], "info":..., "engine": {...}} using a content-addressed cache."""
    from pyvc.engine import Engine, CheckerError, AttachError
    from pyvc import verify, solve
    cache_dir = os.path.join(HERE, ".cache")
    os.makedirs(cache_dir, exist_ok=True)
    th = tree_hash()
    out = {}
    todo = []
    for q in qnames:
        cp = os.path.join(cache_dir, f"{th}-{hashlib.sha1(q.encode()).hexdigest()[:12]}-{timeout_ms}.json")
        if os.path.exists(cp) and not os.environ.get("PYVC_NOCACHE"):
            try:
                out[q] = json.load(open(cp))
                out[q]["cached"] = True
                continue
            except Exception:
                pass
        todo.append((q, cp))
    for q, cp in todo:
        E = Engine(prog, S)
        t0 = time.time()
        try:
            info = verify.verify_function(E, q)
        except (CheckerError, KeyError) as e:
            # the contract no longer attaches to the code (changed shape / unmodelled construct):
            # the function is outside the verifier's reach on this tree; the caller falls back to the bounded native check
            out[q] = {"function": q, "error": f"{type(e).__name__}: {e}", "attach": isinstance(e, (AttachError, KeyError)),
                      "results": [], "instances": 0, "source_sha": "", "vcgen_s": 0, "solve_s": 0, "dropped": [], "abstracted": [],
                      "assumptions": [], "inlined": [], "contracts_used": [], "cached": False}
            continue
        gen_s = time.time() - t0
        t1 = time.time()
        res = solve.discharge(E, E.obligations, jobs=jobs, timeout_ms=timeout_ms)
        tags = {}
        for ob in E.obligations:
            tags.setdefault(ob.name, set()).update(ob.tags)
        rec = {"function": q, "source_sha": prog.func_source_hash(q), "vcgen_s": round(gen_s, 2), "solve_s": round(time.time() - t1, 2),
               "instances": len(E.obligations),
               "results": [dict(r.to_json(), tags=sorted(tags.get(r.name, ())), reason=r.reason, model=r.model[:4000]) for r in res],
               "dropped": sorted(E.dropped), "abstracted": sorted(E.abstracted), "assumptions": sorted(E.assumptions),
               "inlined": sorted(E.stats["inlined"]), "contracts_used": sorted(E.stats["contracts_used"]), "cached": False}
        json.dump(rec, open(cp, "w"))
        out[q] = rec
    return out


def main(argv=None):
    ap = argparse.ArgumentParser()
    ap.add_argument("prop")
    ap.add_argument("--tier", default=os.environ.get("VERIF_TIER", "quick"))
    ap.add_argument("--replay", default=None)
    args = ap.parse_args(argv)
    logging.disable(logging.CRITICAL)
    sys.path.insert(0, HERE)
    t0 = time.time()
    pid = args.prop
    try:
        import props
        return props.run(pid, args.tier, args.replay, t0)
    except SystemExit:
        raise
    except Exception as e:
        from pyvc.engine import AttachError
        if isinstance(e, AttachError):
            print(f"UNDECIDED property={pid}: {e}")
            return 2
        traceback.print_exc()
        print(f"CHECKER-ERROR property={pid}: {e!r}")
        return 3


if __name__ == "__main__":
    sys.exit(main())

"""Generators whose suspension point is state (Container._tick_generator).

Every `yield` is a cut point:  assert the yield invariant and the step postcondition (two-state,
relative to the previous resumption point), then model the environment (rely: havoc what others may
change, assume what they keep), assume the resumption condition, snapshot, continue.
Falling off the end of the body is the StopIteration edge and must satisfy `exhaust`.

The contract of `next(generator)` used by callers (Container.tick) is the step postcondition; it is
justified by the `yield-step` obligations generated here."""
from __future__ import annotations
import ast
import z3
from .qa import ForAll as QForAll
from . import ty
from .spec import FnContract, parse_expr


def yields_of(fn) -> list:
    out = []
    for n in ast.walk(fn):
        if isinstance(n, ast.Yield):
            out.append(n)
    out.sort(key=lambda n: (n.lineno, n.col_offset))
    return out


def exec_yield(E, node, st, fr):
    from .engine import Outcome, CheckerError, Frame, State, fresh
    from . import verify
    c = fr.contract
    if c is None or not getattr(c, "gen", None):
        raise CheckerError(f"{fr.qname}: yield outside a function verified as a generator")
    g = c.gen
    ys = getattr(fr.fn, "_yields", None)
    if ys is None:
        ys = yields_of(fr.fn)
        fr.fn._yields = ys
    k = [i for i, y in enumerate(ys) if y is node][0]
    old_resume = st.resume
    # 1. yield invariant + step postcondition
    sfr = Frame(fr.qname, fr.module, fr.cls, c, fr.fn, old=old_resume, spec=True, entry_locals=fr.entry_locals,
                loop_entry=fr.loop_entry)
    from .spec import split_tags
    for i, inv in enumerate(g.get("yield_inv", {}).get(k, [])):
        tags, body = split_tags(inv)
        E.oblige(fr, st, "yield-inv", f"y{k}:{i}", E.sev_bool(inv, st, sfr), info=body, tags=tags)
    for i, (label, post) in enumerate(g.get("step_post", [])):
        tags, body = split_tags(post)
        E.oblige(fr, st, "yield-step", f"y{k}:{label}", E.sev_bool(post, st, sfr), info=body, tags=tags)
    # 2. environment
    at_yield = st.snapshot()
    yfr = Frame(fr.qname, fr.module, fr.cls, c, fr.fn, old=at_yield, spec=True, entry_locals=fr.entry_locals,
                loop_entry=fr.loop_entry)
    tmpc = FnContract(qname=fr.qname, modifies=list(g.get("rely_havoc", [])))
    ms = verify.modset(E, tmpc, verify.view(at_yield), Frame(fr.qname, fr.module, fr.cls, c, None, old=None, spec=True,
                                                            entry_locals=dict(st.locals)))
    verify.havoc_modset(E, st, ms, at_yield, allocates=True)
    for a in g.get("rely_assume", []):
        st.assume(E.sev_bool(a, st, yfr))
    for a in g.get("resume_requires", []):
        st.assume(E.sev_bool(a, st, yfr))
    for inv in g.get("yield_inv", {}).get(k, []):
        st.assume(E.sev_bool(inv, st, yfr))
    verify.wf_after_havoc(E, st, ms)
    st.resume = st.snapshot()
    return [Outcome("ok", st)]


def verify_generator(E, q, c, fn, fr, st, old):
    from .engine import Outcome, CheckerError, Frame, State, fresh, V
    g = c.gen
    st.resume = st.snapshot()
    n0 = len(E.obligations)
    outs = E.ex_block(fn.body, st, fr)
    outs = outs + fr.exc
    fr.exc = []
    for o in outs:
        if o.kind in ("ok", "ret"):
            sfr = Frame(fr.qname, fr.module, fr.cls, c, fr.fn, old=o.st.resume, spec=True, entry_locals=fr.entry_locals)
            from .spec import split_tags
            for i, (label, post) in enumerate(g.get("exhaust", [])):
                tags, body = split_tags(post)
                E.oblige(fr, o.st, "exhaust", label, E.sev_bool(post, o.st, sfr), info=body, tags=tags)
        elif o.kind == "raise":
            if o.exc in c.raises:
                sfr = Frame(fr.qname, fr.module, fr.cls, c, fr.fn, old=o.st.resume, spec=True, entry_locals=fr.entry_locals)
                for i, post in enumerate(c.raises[o.exc]):
                    E.oblige(fr, o.st, f"raises:{o.exc}", str(i), E.sev_bool(post, o.st, sfr), info=post)
                continue
            E.oblige(fr, o.st, "noraise", f"{o.exc}", z3.BoolVal(False), info=f"exception edge at {o.where}")
    return {"function": q, "obligations": len(E.obligations) - n0, "yields": len(yields_of(fn))}

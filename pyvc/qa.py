"""Quantifier construction that degrades gracefully: z3 rejects patterns containing if-then-else or
connectives (they appear when a merged heap version is part of a pattern); fall back to z3's own inference."""
import z3


def ForAll(vs, body, patterns=None, **kw):
    if patterns:
        try:
            return z3.ForAll(vs, body, patterns=patterns, **kw)
        except z3.Z3Exception:
            pass
    return z3.ForAll(vs, body, **kw)

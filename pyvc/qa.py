"""Quantifier construction that degrades gracefully: z3 rejects patterns containing if-then-else or
connectives (they appear when a merged heap version is part of a pattern); fall back to z3's own inference."""
import z3


def ForAll(vs, body, patterns=None, **kw):
    if patterns:
        try:
            return z3.ForAll(vs, body, patterns=patterns, **kw)
        except z3.Z3Exception:
            pass
    return z3.ForAll(vs, body, **kw)


def _contains(e, var, cache):
    k = e.get_id()
    if k in cache:
        return cache[k]
    r = (False, False)   # (contains var, contains a de-Bruijn variable)
    if z3.is_var(e):
        r = (False, True)
    elif e.eq(var):
        r = (True, False)
    elif z3.is_quantifier(e):
        a = _contains(e.body(), var, cache)
        r = (a[0], True)
    else:
        hv = hb = False
        for c in e.children():
            a = _contains(c, var, cache)
            hv, hb = hv or a[0], hb or a[1]
        r = (hv, hb)
    cache[k] = r
    return r


def nested_patterns(var, body, limit=2):
    """z3 does not look inside nested quantifiers when it infers patterns.  If the bound variable occurs in an
    uninterpreted application only inside a nested quantifier, return such applications (free of inner bound
    variables) to be used as explicit patterns; otherwise None."""
    top, nested, cache = [], [], {}

    def walk(e, inside):
        if z3.is_quantifier(e):
            walk(e.body(), True)
            return
        if z3.is_app(e):
            if e.num_args() > 0 and e.decl().kind() == z3.Z3_OP_UNINTERPRETED:
                hv, hb = _contains(e, var, cache)
                if hv and not hb:
                    (nested if inside else top).append(e)
            for c in e.children():
                walk(c, inside)

    walk(body, False)
    if top or not nested:
        return None
    nested.sort(key=lambda t: len(t.sexpr()))
    out = []
    for t in nested:
        if not any(t.eq(o) for o in out):
            out.append(t)
        if len(out) >= limit:
            break
    return out

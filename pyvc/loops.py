"""Loops are cut at invariants: establish on entry, havoc what the body writes, assume the
invariant, execute one body, re-establish.  No unrolling, no bound."""
from __future__ import annotations
import ast
import os
import z3
from .qa import ForAll as QForAll
from . import ty
from .ty import T, INT, REAL, BOOL
from .prelude import seq_ops
from .program import assigned_names
from .spec import LoopSpec


def loop_ordinal(E, s, fr):
    from .engine import CheckerError
    from .program import loops_of
    if fr.fn is None:
        return None
    ls = getattr(fr.fn, "_loops", None)
    if ls is None:
        ls = loops_of(fr.fn)
        fr.fn._loops = ls
    for i, l in enumerate(ls):
        if l is s:
            return i
    return None


def loop_spec(E, s, fr) -> tuple[int | None, LoopSpec | None]:
    k = loop_ordinal(E, s, fr)
    if fr.contract is None or k is None:
        return k, None
    return k, fr.contract.loops.get(k)


def written_keys(E, before, outs):
    """heap key -> list of object refs written by the body (None: written at unknown objects)"""
    keys: dict = {}
    for o in outs:
        if o.kind not in ("ok", "cont"):
            continue   # only paths that come back to the loop head matter for the head abstraction
        for key, arr in o.st.heap.items():
            b = E.h(before, key)
            if arr is not b and not arr.eq(b):
                # the write log was emptied when the body started: it holds exactly the body's writes
                w = o.st.writes.get(key, None) if key in o.st.writes else None
                if w is None:
                    keys[key] = None
                elif keys.get(key, []) is not None:
                    keys.setdefault(key, []).extend(w)
    return keys


def havoc_for_loop(E, st, fr, names, keys, entry, has_yield=True):
    """Fresh values for assigned locals and written heap keys (frame: the function's modifies clause)."""
    from .engine import V, fresh
    for n in names:
        if n in st.locals and st.locals[n].z is not None:
            v = st.locals[n]
            st.locals[n] = V(v.t, fresh("h_" + n, v.z.sort()))
    live = None
    for key in keys:
        old = E.h(st, key)
        objs = keys[key] if isinstance(keys, dict) else None
        if objs is not None and key[0] not in ("alloc", "glob"):
            # every write of the body goes to an object named by a loop-invariant term: havoc just those objects
            if live is None:
                live = live_constants(E, entry, fr)
                written_arrays = set()
                for k2 in keys:
                    _all_consts(E.h(entry, k2), written_arrays)
            uniq = []
            ok = True
            for o_ in objs:
                acc = set()
                _consts(o_, acc, set())
                allc = set()
                _all_consts(o_, allc)
                if not acc <= live or (allc & written_arrays):
                    ok = False
                    break
                if not any(o_.eq(u) for u in uniq):
                    uniq.append(o_)
            if ok:
                new = old
                cells = []
                for o_ in uniq:
                    cell = fresh("hlo_" + str(key[0]), old.sort().range())
                    cells.append(cell)
                    new = z3.Store(new, o_, cell)
                st.heap[key] = new
                for cell in cells:
                    E.wf_value(st, key, cell)
                st.note_write(key, None) if False else None
                for o_ in uniq:
                    st.note_write(key, o_)
                continue
        new = fresh("hl_" + str(key[0]) + "_" + "_".join(str(x) for x in key[1:3] if not isinstance(x, T)), old.sort())
        st.heap[key] = new
        st.note_write(key, None)
        E.loop_frame_assumption(st, fr, key, new, E.h(entry, key))
    if st.resume is not None and has_yield:
        # generator mode: the resumption snapshot of an arbitrary iteration is arbitrary too
        from .engine import State
        rs = State()
        rs.locals = dict(st.resume.locals)
        rs.pc = st.pc
        for key in set(st.heap) | set(st.resume.heap) | set(keys):
            if key[0] in ("alloc",):
                continue
            rs.heap[key] = fresh("rs_" + str(key[0]), E.h(st, key).sort())
        st.resume = rs
    if ("alloc",) in keys:
        r = fresh("r", ty.RefSort)
        st.assume(QForAll([r], z3.Implies(z3.Select(E.alloc(entry), r), z3.Select(E.alloc(st), r)),
                            patterns=[z3.Select(E.alloc(st), r)]))
    E.wf_keys(st, keys)


import re
_VERSIONED = re.compile(r"![0-9]+$")


def _consts(e, acc, seen):
    """versioned (fresh) constants occurring in a z3 term"""
    stack = [e]
    while stack:
        t = stack.pop()
        if t is None:
            continue
        i = t.get_id()
        if i in seen:
            continue
        seen.add(i)
        if z3.is_quantifier(t):
            stack.append(t.body())
            continue
        if z3.is_app(t):
            if t.num_args() == 0:
                n = t.decl().name()
                if _VERSIONED.search(n):
                    acc.add(n)
            else:
                stack.extend(t.children())


def _all_consts(e, acc):
    """names of all array-sorted uninterpreted constants (heap versions) in a term"""
    stack, seen = [e], set()
    while stack:
        t = stack.pop()
        i = t.get_id()
        if i in seen:
            continue
        seen.add(i)
        if z3.is_quantifier(t):
            stack.append(t.body())
        elif z3.is_app(t):
            if t.num_args() == 0 and t.decl().kind() == z3.Z3_OP_UNINTERPRETED and t.sort().kind() == z3.Z3_ARRAY_SORT:
                acc.add(t.decl().name())
            stack.extend(t.children())


def live_constants(E, st, fr):
    acc, seen = set(), set()
    # heap versions of the head (post-havoc) states of enclosing loops stay live: their frame-step obligations relate the
    # end of the body to them through facts established inside the body (e.g. a callee's frame)
    states = [st] + ([fr.old] if fr.old is not None else []) + list(fr.loop_entry) + list(getattr(fr, "loop_heads", []))
    if st.resume is not None:
        states.append(st.resume)
    for s in states:
        for v in s.locals.values():
            if getattr(v, "z", None) is not None:
                _consts(v.z, acc, seen)
        for arr in s.heap.values():
            _consts(arr, acc, seen)
    for v in fr.entry_locals.values():
        if getattr(v, "z", None) is not None:
            _consts(v.z, acc, seen)
    return acc


def prune_pc(E, st, fr):
    """Drop path-condition facts about heap versions / values that are no longer reachable from the current
    state, the function-entry state or an enclosing loop-entry state.  Dropping assumptions is sound (it can
    only make an obligation harder to prove); the loop invariant must carry what the continuation needs."""
    if not getattr(E, "prune", True):
        return
    live = live_constants(E, st, fr)
    kept = []
    flat = []

    def _flatten(f):
        if z3.is_and(f):
            for c in f.children():
                _flatten(c)
        elif z3.is_implies(f) and z3.is_and(f.arg(1)):
            for c in f.arg(1).children():
                _flatten(z3.Implies(f.arg(0), c))
        else:
            flat.append(f)
    for f in st.pc:
        _flatten(f)       # a conjunction is pruned conjunct by conjunct (keeps e.g. freshness w.r.t. function entry)
    for f in flat:
        acc = set()
        _consts(f, acc, set())
        if acc <= live:
            kept.append(f)
        elif os.environ.get("PYVC_DEBUG_PRUNE"):
            print("PRUNE", sorted(acc - live)[:5], str(f)[:160].replace("\n", " "))
    st.pc[:] = kept


def iter_domain(E, it_node, st, fr):
    """Describes the iterated object of a for loop.
    Returns dict(kind=..., ...) with a function elem(st, i) -> V and length(st) -> z3 int."""
    from .engine import V, CheckerError
    if isinstance(it_node, ast.Call) and isinstance(it_node.func, ast.Name) and it_node.func.id == "range":
        args = [E.ev(a, st, fr) for a in it_node.args]
        if len(args) == 1:
            lo, hi = z3.IntVal(0), args[0].z
        elif len(args) == 2:
            lo, hi = args[0].z, args[1].z
        else:
            raise CheckerError("range with step not modelled")
        n = z3.If(hi > lo, hi - lo, 0)
        return dict(kind="range", length=lambda s: n, elem=lambda s, i: V(INT, lo + i), seq=None)
    if isinstance(it_node, ast.Call) and isinstance(it_node.func, ast.Name) and it_node.func.id == "enumerate":
        inner = iter_domain(E, it_node.args[0], st, fr)
        def elem(s, i, inner=inner):
            return E.mk_tuple([V(INT, i), inner["elem"](s, i)])
        return dict(kind="enum", length=inner["length"], elem=elem, seq=inner.get("seq"), inner=inner, et=inner.get("et"))
    v = E.ev(it_node, st, fr)
    if v.t.kind == "opt" and v.t.args[0].kind in ("list", "dict"):
        # iterating None is a TypeError; otherwise iterate the wrapped container
        dt, none, some, val, is_none = ty.opt_sort(v.t.args[0])
        E.raise_edge(fr, st, is_none(v.z), "TypeError", f"L{it_node.lineno}")
        v = V(v.t.args[0], val(v.z))
    if v.t.kind == "list":
        et = v.t.args[0]
        so = seq_ops(et)
        # Python's list iterator re-reads the list on every step
        return dict(kind="list", length=lambda s: so.Len(E.list_seq(s, v)), elem=lambda s, i: V(et, so.At(E.list_seq(s, v), i)),
                    seq=lambda s: E.list_seq(s, v), et=et, listv=v)
    if v.t.kind == "seqv":
        et = v.t.args[0]
        so = seq_ops(et)
        return dict(kind="seqv", length=lambda s: so.Len(v.z), elem=lambda s, i: V(et, so.At(v.z, i)), seq=lambda s: v.z, et=et)
    if v.t.kind == "pyconst":
        seq, et = E.as_seq(v, st)
        so = seq_ops(et)
        return dict(kind="seqv", length=lambda s: so.Len(seq), elem=lambda s, i: V(et, so.At(seq, i)), seq=lambda s: seq, et=et)
    if v.t.kind == "dict":
        kt = v.t.args[0]
        so = seq_ops(kt)
        keys0 = E.dict_keys(st, v)
        E.assumptions.add("dict iteration: the key set is not changed by the loop body (RuntimeError otherwise)")
        return dict(kind="seqv", length=lambda s: so.Len(keys0), elem=lambda s, i: V(kt, so.At(keys0, i)), seq=lambda s: keys0, et=kt)
    if v.t.kind == "ref":
        # iteration protocol through a contract: "iter_of:<Class>" gives the visited sequence
        q = "iter_of:" + v.t.args[0]
        if q in E.spec.fns:
            res = E.apply_contract(E.spec.fns[q], q, {"self": v}, st, fr, it_node)
            et = res.t.args[0]
            so = seq_ops(et)
            return dict(kind="seqv", length=lambda s: so.Len(res.z), elem=lambda s, i: V(et, so.At(res.z, i)), seq=lambda s: res.z, et=et)
    raise CheckerError(f"{fr.qname}: for-loop over {v.t} not modelled (line {it_node.lineno})")


def _cover_body_end(E, fr, st, k):
    """vacuity guard: the end of the loop body must not be refutable from the assumptions made on the way (a contradiction
    there would discharge the invariant-step and frame-step obligations of this loop for free)"""
    if not getattr(fr, "verify", False) or E.dry:
        return
    from .engine import Obligation
    from .engine import short
    E.obligations.append(Obligation(f"{short(fr.qname)}:cover:loop{k}:body-end", list(st.pc), z3.BoolVal(True), "cover", fr.qname,
                                    "end of the loop body reachable", "sat", tuple(sorted(E.function_tags(fr.qname)))))


def _bind_loop_seq(fr, st, binds):
    """`loop_seq` in an invariant names the sequence the innermost enclosing for-loop iterates over"""
    doms = getattr(fr, "loop_doms", None)
    if doms and doms[-1] is not None and doms[-1] in st.locals:
        binds["loop_seq"] = st.locals[doms[-1]]


def check_invs(E, fr, st, spec: LoopSpec | None, k, kind, idxv):
    if spec is None:
        return
    binds = {}
    if spec.idx and idxv is not None:
        from .engine import V
        binds[spec.idx] = V(INT, idxv)
    _bind_loop_seq(fr, st, binds)
    from .spec import split_tags
    for i, inv in enumerate(spec.inv):
        g = E.sev_bool(inv, st, fr, binds)
        tags, body = split_tags(inv)
        E.oblige(fr, st, kind, f"loop{k}:{i}", g, info=body, tags=tags)


def assume_invs(E, fr, st, spec, idxv):
    if spec is None:
        return
    from .engine import V
    binds = {}
    if spec.idx and idxv is not None:
        binds[spec.idx] = V(INT, idxv)
    _bind_loop_seq(fr, st, binds)
    for inv in spec.inv:
        st.assume(E.sev_bool(inv, st, fr, binds))


def discover(E, body_runner, st, fr, names, has_yield=True):
    """Fixed point of the heap keys written by the loop body (dry runs, no obligations)."""
    keys: dict = {}
    E.dry += 1
    try:
        for _ in range(6):
            trial = st.copy()
            havoc_for_loop(E, trial, fr, names, keys, st, has_yield)
            saved_exc, fr.exc = fr.exc, []
            trial.writes = {}
            before = trial.copy()
            outs = body_runner(trial, True)
            outs = outs + fr.exc
            fr.exc = saved_exc
            w = written_keys(E, before, outs)
            changed = False
            live = live_constants(E, st, fr)
            for key, objs in list(w.items()):
                if objs is not None:
                    for o_ in objs:
                        acc = set()
                        _consts(o_, acc, set())
                        if not acc <= live:
                            w[key] = None   # written through a term that is not loop-invariant
                            break
            for key, objs in w.items():
                if key not in keys:
                    keys[key] = objs if objs is None else list(objs)
                    changed = True
                elif keys[key] is not None:
                    if objs is None:
                        keys[key] = None
                        changed = True
                    else:
                        for o_ in objs:
                            if not any(o_.eq(u) for u in keys[key]):
                                keys[key].append(o_)
                                changed = True
            if not changed:
                break
        else:
            from .engine import CheckerError
            raise CheckerError("loop write-set discovery did not converge")
    finally:
        E.dry -= 1
    return keys


def do_cut(E, st, fr, spec, k):
    """Summarise-and-forget: prove the cut facts and the frame, then continue from an arbitrary state that
    satisfies them (sound: the continuation is verified for every such state)."""
    from .engine import fresh
    from .spec import split_tags
    from . import verify
    for i, c in enumerate(spec.cut):
        tags, body = split_tags(c)
        E.oblige(fr, st, "cut", f"loop{k}:{i}", E.sev_bool(c, st, fr), info=body, tags=tags)
    base = fr.old if fr.old is not None else None
    touched = [key for key, arr in st.heap.items() if base is None or (arr is not E.h(base, key) and not arr.eq(E.h(base, key)))]
    E.loop_frame_check(st, fr, touched, k, "frame-cut")
    entry = st.copy()
    for key in touched:
        old = E.h(st, key)
        new = fresh("cut_" + str(key[0]), old.sort())
        st.heap[key] = new
        st.note_write(key, None)
        E.loop_frame_assumption(st, fr, key, new, None)
    if ("alloc",) in touched:
        r = fresh("r", ty.RefSort)
        st.assume(QForAll([r], z3.Implies(z3.Select(E.alloc(entry), r), z3.Select(E.alloc(st), r)),
                            patterns=[z3.Select(E.alloc(st), r)]))
        if base is not None:
            st.assume(QForAll([r], z3.Implies(z3.Select(E.alloc(base), r), z3.Select(E.alloc(st), r)),
                                patterns=[z3.Select(E.alloc(base), r)]))
    if ("alloc",) in touched:
        E.alloc_from_initial(st)
    E.wf_keys(st, touched)
    # locals holding references keep pointing at allocated objects
    for n, v in st.locals.items():
        if getattr(v, "z", None) is not None and v.t.kind in ("list", "dict", "set", "ref") :
            st.assume(z3.Or(v.z == ty.null, z3.Select(E.alloc(st), v.z)))
    prune_pc(E, st, fr)
    for c in spec.cut:
        st.assume(E.sev_bool(c, st, fr))


def exec_for(E, s: ast.For, st, fr):
    from .engine import V, Outcome, CheckerError, fresh
    if s.orelse:
        raise CheckerError("for-else not modelled")
    k, spec = loop_spec(E, s, fr)
    if spec is not None and spec.header is not None:
        hdr = f"for {ast.unparse(s.target)} in {ast.unparse(s.iter)}"
        if hdr != spec.header:
            from .engine import AttachError
            raise AttachError(f"{fr.qname}: loop {k} header is `{hdr}`, contract was written for `{spec.header}`")
    if spec is not None and spec.cut is not None and fr.verify:
        do_cut(E, st, fr, spec, k)
    dom = iter_domain(E, s.iter, st, fr)
    # keep the iterated value reachable (its defining facts must survive path-condition pruning)
    if dom.get("seq") is not None:
        from .engine import V as _V
        try:
            st.locals["$dom%d" % id(s)] = _V(ty.SeqV(dom["et"]), dom["seq"](st))
        except Exception:
            pass
    names = assigned_names(s.body) | assigned_names([ast.Expr(value=s.target)] if False else []) | {n.id for n in ast.walk(s.target) if isinstance(n, ast.Name)}
    entry = st.copy()
    fr.loop_entry.append(entry)
    if not hasattr(fr, "loop_doms"):
        fr.loop_doms = []
    fr.loop_doms.append("$dom%d" % id(s) if dom.get("seq") is not None else None)
    _heads0 = len(getattr(fr, "loop_heads", []))
    try:
        # 1. invariant holds on entry (idx = 0)
        check_invs(E, fr, st, spec, k, "inv-entry", z3.IntVal(0))

        def run_body(state, dry):
            i = state.locals["$idx%d" % id(s)].z
            b = state
            b.assume(i < dom["length"](b), True)
            elem = dom["elem"](b, i)
            E.assign(s.target, elem, b, fr)
            # structural unfolding of the visited prefix: Take(seq, i+1) = App(Take(seq, i), seq[i])
            if dom.get("seq") is not None:
                sq = dom["seq"](b)
                so = seq_ops(dom["et"])
                b.assume(so.Take(sq, i + 1) == so.App(so.Take(sq, i), so.At(sq, i)))
                b.assume(so.Mem(sq, so.At(sq, i)))
            if spec is not None:
                for usrc in spec.unfold:
                    uv = E.sev(usrc, b, fr)
                    usq, uet = E.as_seq(uv, b)
                    uso = seq_ops(uet)
                    b.assume(z3.Implies(z3.And(0 <= i, i < uso.Len(usq)),
                                        z3.And(uso.Take(usq, i + 1) == uso.App(uso.Take(usq, i), uso.At(usq, i)), uso.Mem(usq, uso.At(usq, i)))))
            b.locals["$idx%d" % id(s)] = V(INT, i + 1)
            if spec is not None and spec.idx:
                b.locals["$ghost_" + spec.idx] = V(INT, i)   # visible to the invariants of nested loops
            return E.ex_block(s.body, b, fr)

        idxname = "$idx%d" % id(s)
        st.locals[idxname] = V(INT, z3.IntVal(0))
        hy = any(isinstance(n, ast.Yield) for b in s.body for n in ast.walk(b))
        keys = discover(E, run_body, st, fr, names | {idxname}, hy)
        E.loop_frame_check(st, fr, keys, k, "frame-entry")
        # 2. havoc + assume invariant at an arbitrary iteration
        head = st
        havoc_for_loop(E, head, fr, names | {idxname}, keys, entry, hy)
        prune_pc(E, head, fr)
        i = head.locals[idxname].z
        head.assume(i >= 0)
        if dom["kind"] != "list":
            head.assume(i <= dom["length"](head))
        assume_invs(E, fr, head, spec, i)
        if not hasattr(fr, "loop_heads"):
            fr.loop_heads = []
        fr.loop_heads.append(head.copy())
        # 3. exit path
        exit_st = head.copy()
        exit_st.assume(i >= dom["length"](exit_st), True)
        if dom.get("seq") is not None:
            so = seq_ops(dom["et"])
            sq = dom["seq"](exit_st)
        # 4. one arbitrary iteration
        body_st = head.copy()
        outs = run_body(body_st, False)
        result = []
        exits = [exit_st]
        for o in outs:
            if o.kind in ("ok", "cont"):
                _cover_body_end(E, fr, o.st, k)
                check_invs(E, fr, o.st, spec, k, "inv-step", o.st.locals[idxname].z)
                E.loop_frame_check(o.st, fr, keys, k, "frame-step")
            elif o.kind == "break":
                exits.append(o.st)
            else:
                result.append(o)
        merged = E.merge_states(exits) if len(exits) > 1 else exits[0]
        result.append(Outcome("ok", merged))
        return result
    finally:
        fr.loop_entry.pop()
        fr.loop_doms.pop()
        if hasattr(fr, "loop_heads"):
            del fr.loop_heads[_heads0:]


def exec_while(E, s: ast.While, st, fr):
    from .engine import V, Outcome, CheckerError, fresh
    if s.orelse:
        raise CheckerError("while-else not modelled")
    k, spec = loop_spec(E, s, fr)
    if spec is not None and spec.header is not None:
        hdr = f"while {ast.unparse(s.test)}"
        if hdr != spec.header:
            from .engine import AttachError
            raise AttachError(f"{fr.qname}: loop {k} header is `{hdr}`, contract was written for `{spec.header}`")
    names = assigned_names(s.body)
    entry = st.copy()
    fr.loop_entry.append(entry)
    _heads0 = len(getattr(fr, "loop_heads", []))
    try:
        check_invs(E, fr, st, spec, k, "inv-entry", None)

        def run_body(state, dry):
            c = E.truthy(E.ev(s.test, state, fr), state, fr)
            state.assume(c, True)
            return E.ex_block(s.body, state, fr)

        hy = any(isinstance(n, ast.Yield) for b in s.body for n in ast.walk(b))
        keys = discover(E, run_body, st, fr, names, hy)
        E.loop_frame_check(st, fr, keys, k, "frame-entry")
        head = st
        havoc_for_loop(E, head, fr, names, keys, entry, hy)
        prune_pc(E, head, fr)
        assume_invs(E, fr, head, spec, None)
        if not hasattr(fr, "loop_heads"):
            fr.loop_heads = []
        fr.loop_heads.append(head.copy())
        exit_st = head.copy()
        saved = fr.exc
        fr.exc = []
        c_exit = E.truthy(E.ev(s.test, exit_st, fr), exit_st, fr)
        cond_exc = fr.exc
        fr.exc = saved
        exit_st.assume(z3.Not(c_exit), True)
        dec0 = None
        body_st = head.copy()
        if spec is not None and spec.decreases:
            dec0 = E.sev(spec.decreases, body_st, fr).z
        outs = run_body(body_st, False)
        result = list(cond_exc)
        exits = [exit_st]
        for o in outs:
            if o.kind in ("ok", "cont"):
                _cover_body_end(E, fr, o.st, k)
                check_invs(E, fr, o.st, spec, k, "inv-step", None)
                E.loop_frame_check(o.st, fr, keys, k, "frame-step")
                if dec0 is not None:
                    dec1 = E.sev(spec.decreases, o.st, fr).z
                    E.oblige(fr, o.st, "decreases", f"loop{k}", z3.And(dec0 >= 0, dec1 < dec0), info=spec.decreases)
            elif o.kind == "break":
                exits.append(o.st)
            else:
                result.append(o)
        merged = E.merge_states(exits) if len(exits) > 1 else exits[0]
        result.append(Outcome("ok", merged))
        return result
    finally:
        fr.loop_entry.pop()
        if hasattr(fr, "loop_heads"):
            del fr.loop_heads[_heads0:]

"""Bounded native scenarios that drive the REAL code with the contract monitors installed.

Each scenario is a deterministic function of (seed); a violation found is replayed by re-running the same
(scenario, seed).  Scopes are small and stated: <= 4 operators per pipeline, <= 3 segments per operator,
<= 4 pools, <= 40 ticks, tick rates {1, 2, 10}, small capacities - see SCOPE."""
from __future__ import annotations
import random

SCOPE = "pipelines<=4 ops (multi-parent DAGs), <=3 segments/op incl. zero-tick ones, pools<=3 with 1..8 CPU / 20..120 GB, " \
        "tick rates {1,2,10}, <=40 ticks per scenario, legal and illegal commands"


def mk_pipeline(ns, rng, pid, n_ops=None, zero_ok=True):
    Pipeline, Segment, Priority = ns["Pipeline"], ns["Segment"], ns["Priority"]
    p = Pipeline(pid, rng.choice(list(Priority)))
    n = n_ops or rng.randint(1, 4)
    ops = []
    laws = list(Segment.SCALING_FUNCS.keys())
    for i in range(n):
        k = rng.randint(0, min(2, len(ops)))
        parents = rng.sample(ops, k) if k else None
        op = p.new_operator(parents)
        for _ in range(rng.randint(1, 3)):
            read = rng.choice([0, 0.5, 5, 19, 20, 35, 40, 60])
            cpu = rng.choice([0, 0.05, 0.4, 0.5, 1, 2.5])
            if not zero_ok and read < 20 and cpu < 1:
                cpu = 1
            mem = rng.choice([None, None, 0, 5, 30, 70])
            op.add_segment(Segment(baseline_cpu_seconds=cpu, cpu_scaling=rng.choice(laws), memory_gb=mem, storage_read_gb=read))
        ops.append(op)
    p.runtime_status()
    return p, ops


def scn_status(mon, seed):
    """random (legal and illegal) state-change requests on small DAGs"""
    ns = mon.ns
    rng = random.Random(seed)
    OperatorState = ns["OperatorState"]
    p, ops = mk_pipeline(ns, rng, f"s{seed}")
    st = p.runtime_status()
    for _ in range(25):
        op = rng.choice(ops)
        new = rng.choice(list(OperatorState))
        try:
            st.check_transition(op, new)
            op.transition(new)
        except AssertionError:
            pass
    st.get_ops(list(OperatorState), require_parents_complete=rng.random() < 0.5)


def ready_ops(ns, p, packed=True):
    OperatorState = ns["OperatorState"]
    st = p.runtime_status()
    return st.get_ops([OperatorState.PENDING, OperatorState.FAILED], require_parents_complete=not packed)


def scn_pool(mon, seed, pools=1):
    """one or more pools driven by random assignments / suspensions (legal and illegal)"""
    ns = mon.ns
    rng = random.Random(seed)
    Assignment, Suspend, ResourcePool, Executor = ns["Assignment"], ns["Suspend"], ns["ResourcePool"], ns["Executor"]
    tps = rng.choice([1, 2, 10])
    over = rng.random() < 0.4
    multi = rng.random() < 0.7
    cpu, ram = rng.choice([1, 2, 4, 8]), rng.choice([20, 40, 64, 120])
    if pools == 1:
        pl = [ResourcePool(0, cpu, ram, tps, multi_operator_containers=multi, allow_memory_overcommit=over)]
        run = lambda s, a: pl[0].run_one_tick(s, a)
    else:
        ex = Executor(pools, cpu, ram, tps, allow_memory_overcommit=over, multi_operator_containers=multi)
        pl = ex.pools
        run = ex.run_one_tick
    pipes = []
    naughty = rng.random() < 0.35
    for t in range(rng.randint(6, 40)):
        if rng.random() < 0.5 and len(pipes) < 6:
            pipes.append(mk_pipeline(ns, rng, f"p{seed}_{len(pipes)}"))
        asg, sus = [], []
        for p, ops in pipes:
            if rng.random() < 0.6:
                cand = ready_ops(ns, p, packed=multi)
                if not multi:
                    cand = cand[:1]
                elif cand and rng.random() < 0.5:
                    cand = cand[: rng.randint(1, len(cand))]
                if not cand:
                    continue
                pool = rng.choice(pl)
                want_cpu = rng.choice([1, 1, 2, pool.avail_cpu_pool])
                want_ram = rng.choice([5, 10, 25, 40, pool.avail_ram_pool])
                if not naughty and (want_cpu > pool.avail_cpu_pool - sum(a.cpu for a in asg if a.pool_id == pool.pool_id)
                                    or (not over and want_ram > pool.avail_ram_pool - sum(a.ram for a in asg if a.pool_id == pool.pool_id))
                                    or want_cpu < 1 or want_ram <= 0):
                    continue
                try:
                    pid = pool.pool_id if not (naughty and rng.random() < 0.1) else rng.choice([-1, len(pl), 7])
                    asg.append(Assignment(cand, want_cpu, want_ram, p.priority, pid, p.pipeline_id))
                except AssertionError:
                    pass
        for pool in pl:
            for c in list(pool.active_containers):
                if (c.can_suspend_container() and rng.random() < 0.5) or (naughty and rng.random() < 0.05):
                    sus.append(Suspend(c.container_id, pool.pool_id))
        try:
            run(sus, asg)
        except (AssertionError, AttributeError):
            return   # rejected command: the run ends (state after a rejection is not further constrained)
        if mon.violations:
            return


def scn_executor(mon, seed):
    scn_pool(mon, seed, pools=random.Random(seed).choice([2, 3]))


def scn_killer(mon, seed):
    """containers with chosen usage/allocation (ties, zero users) and a direct call of the OOM killer"""
    ns = mon.ns
    rng = random.Random(seed)
    Assignment, ResourcePool, Segment, Pipeline, Priority = ns["Assignment"], ns["ResourcePool"], ns["Segment"], ns["Pipeline"], ns["Priority"]
    tps = 1
    pool = ResourcePool(0, 16, rng.choice([60, 80, 100]), tps, allow_memory_overcommit=True)
    asg = []
    for i in range(rng.randint(1, 5)):
        p = Pipeline(f"k{seed}_{i}", Priority.BATCH_PIPELINE)
        op = p.new_operator()
        use = rng.choice([0, 10, 20, 40, 40, 50, 60])
        alloc = rng.choice([20, 40, 50, 90, 100])
        op.add_segment(Segment(baseline_cpu_seconds=rng.choice([2, 3, 5]), cpu_scaling="const", memory_gb=use, storage_read_gb=0))
        p.runtime_status()
        asg.append(Assignment([op], 1, alloc, p.priority, 0, p.pipeline_id))
    try:
        pool.run_one_tick([], asg)
        for _ in range(4):
            pool.run_one_tick([], [])
    except (AssertionError, AttributeError):
        return


def scn_container(mon, seed):
    """one container ticked to the end directly (time and memory model, OOM at the first tick over the limit)"""
    ns = mon.ns
    rng = random.Random(seed)
    Assignment, ResourcePool = ns["Assignment"], ns["ResourcePool"]
    tps = rng.choice([1, 2, 10])
    pool = ResourcePool(0, 8, 200, tps, allow_memory_overcommit=rng.random() < 0.5)
    p, ops = mk_pipeline(ns, rng, f"c{seed}", n_ops=rng.randint(1, 3))
    chain = ready_ops(ns, p, packed=True)
    try:
        a = Assignment(chain, rng.choice([1, 2, 3, 4, 8]), rng.choice([4, 20, 30, 45, 80]), p.priority, 0, p.pipeline_id)
        pool.run_one_tick([], [a])
        for _ in range(60):
            if not pool.active_containers:
                break
            pool.run_one_tick([], [])
    except (AssertionError, AttributeError):
        return


def scn_twins(mon, seed):
    """several identical containers started together: simultaneous completions, simultaneous suspensions that
    finish in the same tick, then re-assignment of the work that came back"""
    ns = mon.ns
    rng = random.Random(seed)
    Assignment, Suspend, ResourcePool, Segment, Pipeline, Priority = (ns[k] for k in ("Assignment", "Suspend", "ResourcePool", "Segment", "Pipeline", "Priority"))
    tps = rng.choice([1, 2, 10])
    n = rng.choice([2, 3])
    ram = rng.choice([10, 20, 40])
    pool = ResourcePool(0, 8, 200, tps, allow_memory_overcommit=rng.random() < 0.3)
    read, cpu = rng.choice([0, 20, 40]), rng.choice([0.5, 1, 2])
    pipes = []
    for i in range(n):
        p = Pipeline(f"t{seed}_{i}", Priority.BATCH_PIPELINE)
        prev = None
        for _ in range(rng.choice([2, 3])):
            op = p.new_operator([prev] if prev else None)
            op.add_segment(Segment(baseline_cpu_seconds=cpu, cpu_scaling="const", memory_gb=rng.choice([None, 5]), storage_read_gb=read))
            prev = op
        p.runtime_status()
        pipes.append(p)
    try:
        asg = [Assignment(ready_ops(ns, p, packed=True), 1, ram, p.priority, 0, p.pipeline_id) for p in pipes]
        pool.run_one_tick([], asg)
        for t in range(80):
            sus = [Suspend(c.container_id, 0) for c in pool.active_containers if c.can_suspend_container()] if rng.random() < 0.7 else []
            asg = []
            if t > 3 and rng.random() < 0.5:
                for p in pipes:
                    ops = ready_ops(ns, p, packed=True)
                    if ops and pool.avail_cpu_pool - len(asg) >= 1 and pool.avail_ram_pool - ram * len(asg) >= ram:
                        asg.append(Assignment(ops, 1, ram, p.priority, 0, p.pipeline_id))
            pool.run_one_tick(sus, asg)
            if mon.violations:
                return
    except (AssertionError, AttributeError):
        return


def scn_sim(mon, seed, algo=None):
    """the main loop of the simulator (arrivals -> scheduler -> executor) with a shipped scheduler on a small cluster"""
    ns = mon.ns
    rng = random.Random(seed)
    Executor, Scheduler = ns["Executor"], ns["Scheduler"]
    algo = algo or rng.choice(["naive", "overbook", "priority-pool", "priority"])
    tps = rng.choice([1, 2, 10])
    multi = rng.random() < 0.6
    over = algo == "overbook" or rng.random() < 0.2
    pools = 2 if algo == "priority-pool" else rng.choice([1, 2, 3])
    cpus = rng.choice([1, 2, 3, 4, 10, 2.5] if algo == "naive" else [1, 2, 3, 4, 10])
    ram = rng.choice([10, 30, 64, 100, 250])
    try:
        ex = Executor(pools, cpus, ram, tps, allow_memory_overcommit=over, multi_operator_containers=multi)
        sch = Scheduler(ex, algo, multi_operator_containers=multi, allow_memory_overcommit=over, duration=10, ticks_per_second=tps)
    except Exception:
        return
    res, n = [], 0
    for t in range(rng.randint(5, 45)):
        arrivals = []
        if rng.random() < 0.4 and n < 8:
            for _ in range(rng.choice([1, 1, 2, 3])):
                p, _ops = mk_pipeline(ns, rng, f"m{seed}_{n}", zero_ok=rng.random() < 0.5)
                p.runtime_status().arrival_tick = t
                arrivals.append(p)
                n += 1
        try:
            sus, asg = sch.run_one_tick(res, arrivals)
            res = ex.run_one_tick(sus, asg)
        except (AssertionError, AttributeError, KeyError, ValueError, IndexError, ZeroDivisionError, StopIteration):
            return
        if mon.violations:
            return


def scn_sim_burst(mon, seed):
    """priority scheduler, adaptive arrival pattern: a pool filled with non-query chains that reach their operator boundary in the
    same tick in which another container finishes; in exactly that round a burst of query pipelines arrives (so some are placed on
    the freed share and some keep waiting while several containers could be suspended), later a second burst"""
    ns = mon.ns
    rng = random.Random(seed)
    Executor, Scheduler, Pipeline, Segment, Priority = ns["Executor"], ns["Scheduler"], ns["Pipeline"], ns["Segment"], ns["Priority"]
    tps = rng.choice([1, 2, 10])
    cpus = rng.choice([2, 3, 4, 10, 10])
    pools = rng.choice([1, 1, 2])
    multi = rng.random() < 0.8
    try:
        ex = Executor(pools, cpus, 100, tps, allow_memory_overcommit=False, multi_operator_containers=multi)
        sch = Scheduler(ex, "priority", multi_operator_containers=multi, allow_memory_overcommit=False, duration=10, ticks_per_second=tps)
    except Exception:
        return
    d1 = rng.choice([0.35, 1, 2, 0.5])

    def chain(pid, prio, durs):
        p = Pipeline(pid, prio)
        prev = None
        for d in durs:
            op = p.new_operator([prev] if prev is not None else None)
            op.add_segment(Segment(baseline_cpu_seconds=d, cpu_scaling="const", memory_gb=rng.choice([None, 1]), storage_read_gb=0))
            prev = op
        p.runtime_status()
        return p
    slots = pools * (cpus if cpus < 10 else 10)
    n_short = rng.randint(1, max(1, slots // 3))
    first = []
    for i in range(slots):
        prio = rng.choice([Priority.BATCH_PIPELINE, Priority.INTERACTIVE])
        first.append(chain(f"b{seed}_{i}", prio, [d1] if i < n_short else [d1, rng.choice([5.0, 10.0])]))
    rng.shuffle(first)
    res, bursts, nq = [], 0, 0
    for t in range(rng.randint(12, 40)):
        arrivals = first if t == 0 else []
        if t > 0 and bursts < 2:
            boundary = [c for pool in ex.pools for c in pool.active_containers if c.priority != Priority.QUERY and c.can_suspend_container()]
            finished = [r for r in res if not r.failed()]
            if (len(boundary) >= 2 and finished) or (bursts == 1 and rng.random() < 0.15):
                for _ in range(rng.choice([2, 2, 3, len(finished) + 1])):
                    # query pipelines of one to three operators (a waiting query job may carry several operators)
                    arrivals.append(chain(f"q{seed}_{nq}", Priority.QUERY, [rng.choice([0.5, 3.0, 10.0])] * rng.choice([1, 1, 2, 3])))
                    nq += 1
                bursts += 1
        for p in arrivals:
            p.runtime_status().arrival_tick = t
        try:
            sus, asg = sch.run_one_tick(res, arrivals)
            res = ex.run_one_tick(sus, asg)
        except (AssertionError, AttributeError, KeyError, ValueError, IndexError, ZeroDivisionError, StopIteration):
            return
        if mon.violations:
            return


SCENARIOS = {"status": scn_status, "pool": scn_pool, "executor": scn_executor, "killer": scn_killer, "container": scn_container,
             "twins": scn_twins, "sim": scn_sim,
             "sim-naive": lambda m, sd: scn_sim(m, sd, "naive"), "sim-overbook": lambda m, sd: scn_sim(m, sd, "overbook"),
             "sim-priority-pool": lambda m, sd: scn_sim(m, sd, "priority-pool"), "sim-priority": lambda m, sd: scn_sim(m, sd, "priority"),
             "sim-priority-burst": scn_sim_burst}

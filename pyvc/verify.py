"""Per-function verification: entry state from the contract, execution, postconditions, frames."""
from __future__ import annotations
import ast
import z3
from .qa import ForAll as QForAll
from . import ty
from .ty import T, INT, REAL, BOOL, STR, NONE
from .prelude import seq_ops
from .spec import FnContract, parse_expr
from .engine import Engine, V, State, Frame, Outcome, CheckerError, AttachError, fresh, short
from . import calls
from .program import loops_of


# ------------------------------------------------------------------------------- modifies
def loc_keys(E: Engine, node: ast.AST, st: State, fr: Frame):
    """A location expression -> list of (heap key, object ref z3)."""
    if isinstance(node, ast.Attribute):
        base = E.ev(node.value, st, fr)
        if base.t.kind != "ref":
            raise CheckerError(f"modifies: {ast.unparse(node)} is not a field of an object")
        owner, t, imm = E.fld_key(base.t.args[0], node.attr)
        if imm:
            raise CheckerError(f"modifies: {owner}.{node.attr} is immutable")
        return [(("fld", owner, node.attr, t), base.z)]
    if isinstance(node, ast.Call) and isinstance(node.func, ast.Name) and node.func.id == "contents":
        v = E.ev(node.args[0], st, fr)
        if v.t.kind == "list":
            return [(("list", v.t.args[0]), v.z)]
        if v.t.kind == "dict":
            return [(("dk", v.t.args[0]), v.z), (("dv", v.t.args[0], v.t.args[1]), v.z)]
        if v.t.kind == "set":
            return [(("set", v.t.args[0]), v.z)]
        if v.t.kind == "iter":
            return [(("itpos",), v.z)]
        raise CheckerError(f"modifies: contents() of {v.t}")
    if isinstance(node, ast.Call) and isinstance(node.func, ast.Name) and node.func.id == "values":
        v = E.ev(node.args[0], st, fr)
        if v.t.kind != "dict":
            raise CheckerError(f"modifies: values() of {v.t}")
        return [(("dv", v.t.args[0], v.t.args[1]), v.z)]
    if isinstance(node, ast.Call) and isinstance(node.func, ast.Name) and node.func.id == "glob":
        cname, attr = node.args[0].value.split(".")
        r = E.spec.field(cname, attr, E.prog.mro(cname))
        return [(("glob", cname, attr, r[1]), None)]
    raise CheckerError(f"modifies: unsupported location {ast.unparse(node)}")


def modset(E: Engine, c: FnContract, pre_view: State, cfr: Frame) -> dict:
    """heap key -> list of entries: ('obj', ref) | ('quant', var, guard, ref) | ('all',)"""
    out: dict = {}
    sub = Frame(cfr.qname, cfr.module, cfr.cls, c, None, old=None, spec=True, entry_locals=cfr.entry_locals)
    for m in c.modifies:
        node = parse_expr(m)
        if isinstance(node, ast.Call) and isinstance(node.func, ast.Name) and node.func.id == "star":
            key = parse_key(E, node.args[0].value)
            out.setdefault(key, []).append(("all",))
            continue
        if isinstance(node, ast.GeneratorExp):
            sub2 = Frame(cfr.qname, cfr.module, cfr.cls, c, None, old=None, spec=True, entry_locals=cfr.entry_locals, binds={})
            xs, guards = [], []
            for gen in node.generators:
                kind, payload = E.comp_iter(gen, pre_view, sub2)
                if kind == "every":
                    x = fresh("mq", ty.RefSort)
                    E.bind_target(gen.target, V(payload, x), sub2.binds)
                    xs.append(x)
                    guards.extend(E.truthy(E.ev(cn, pre_view, sub2), pre_view, sub2) for cn in gen.ifs)
                    continue
                if kind != "seq":
                    raise CheckerError("modifies: comprehension must range over a sequence")
                seq, et = payload
                x = fresh("mq", ty.zsort(et))
                E.bind_target(gen.target, V(et, x), sub2.binds)
                xs.append(x)
                guards.append(seq_ops(et).Mem(seq, x))
                guards.extend(E.truthy(E.ev(cn, pre_view, sub2), pre_view, sub2) for cn in gen.ifs)
            guard = z3.And(*guards) if guards else z3.BoolVal(True)
            for key, ref in loc_keys(E, node.elt, pre_view, sub2):
                out.setdefault(key, []).append(("quant", xs, guard, ref))
            continue
        for key, ref in loc_keys(E, node, pre_view, sub):
            out.setdefault(key, []).append(("obj", ref) if ref is not None else ("all",))
    return out


def parse_key(E, s: str):
    kind, _, rest = s.partition(":")
    if s == "*":
        return ("*",)
    if kind == "fld":
        cname, attr = rest.split(".")
        owner, t, imm = E.fld_key(cname, attr)
        return ("fld", owner, attr, t)
    if kind == "alloc":
        return ("alloc",)
    if kind == "dv":
        k, v = rest.split(":")
        conv = lambda n: ty.INT if n == "int" else ty.REAL if n == "real" else ty.STR if n == "str" else ty.Enum(n) if n in E.prog.enums else ty.Ref(n)
        return ("dv", conv(k), conv(v))
    raise CheckerError(f"star(): unsupported key {s}")


def not_in_modset(entries, r):
    """Formula: reference r is not one of the objects the entries allow to change."""
    conj = []
    for e in entries:
        if e[0] == "all":
            return z3.BoolVal(False)
        if e[0] == "obj":
            conj.append(r != e[1])
        else:
            _q, xs, guard, ref = e
            conj.append(QForAll(list(xs), z3.Implies(guard, r != ref)))
    return z3.And(*conj) if conj else z3.BoolVal(True)


def havoc_modset(E: Engine, st: State, ms: dict, pre: State, allocates=False):
    if ("*",) in ms:
        # the callee may change any location
        for key in (set(st.heap) | set(E.heap0)) - {("alloc",)}:
            st.heap[key] = fresh("any_" + str(key[0]), E.h(st, key).sort())
            st.note_write(key, None)
        allocates = True
    for key, entries in ms.items():
        if key == ("*",):
            continue
        old = E.h(st, key)
        if key[0] == "glob":
            st.heap[key] = fresh("hv_glob", old.sort())
            st.note_write(key, None)
            continue
        if all(e[0] == "obj" for e in entries):
            new = old
            for e in entries:
                new = z3.Store(new, e[1], fresh("hv", old.sort().range()))
                st.note_write(key, e[1])
            st.heap[key] = new
            continue
        new = fresh("hv_" + str(key[0]), old.sort())
        st.heap[key] = new
        st.note_write(key, None)
        if not any(e[0] == "all" for e in entries):
            r = fresh("r", ty.RefSort)
            st.assume(QForAll([r], z3.Implies(not_in_modset(entries, r), z3.Select(new, r) == z3.Select(old, r)),
                                patterns=[z3.Select(new, r)]))
    if allocates:
        olda = E.alloc(st)
        newa = fresh("hv_alloc", olda.sort())
        st.heap[("alloc",)] = newa
        st.note_write(("alloc",), None)
        r = fresh("r", ty.RefSort)
        st.assume(QForAll([r], z3.Implies(z3.Select(olda, r), z3.Select(newa, r)), patterns=[z3.Select(olda, r)]))
        E.alloc_from_initial(st)


def wf_value(E: Engine, st: State, key, val):
    """Well-formedness of one havoc'd heap cell (the object holding it is allocated)."""
    al = E.alloc(st)
    if key[0] == "fld" and ty.is_reflike(key[3]) and key[3].kind != "fn":
        st.assume(z3.Or(val == ty.null, z3.Select(al, val)))
    if key[0] in ("list", "dk") and ty.is_reflike(key[1]):
        so = seq_ops(key[1])
        x = fresh("x", ty.RefSort)
        st.assume(QForAll([x], z3.Implies(so.Mem(val, x), z3.And(x != ty.null, z3.Select(al, x))), patterns=[so.Mem(val, x)]))


def wf_keys(E: Engine, st: State, keys):
    """Heap well-formedness facts for (havoc'd) keys: references stored in allocated objects are allocated."""
    al = E.alloc(st)
    for key in keys:
        arr = E.h(st, key)
        if z3.is_app_of(arr, z3.Z3_OP_STORE):
            continue   # object-precise havoc: handled cell by cell (wf_value)
        if key[0] == "fld" and ty.is_reflike(key[3]):
            r = fresh("r", ty.RefSort)
            st.assume(QForAll([r], z3.Implies(z3.Select(al, r), z3.Or(z3.Select(arr, r) == ty.null, z3.Select(al, z3.Select(arr, r)))),
                                patterns=[z3.Select(arr, r)]))
        if key[0] == "list" and ty.is_reflike(key[1]):
            so = seq_ops(key[1])
            r = fresh("r", ty.RefSort)
            x = fresh("x", ty.RefSort)
            st.assume(QForAll([r, x], z3.Implies(z3.And(z3.Select(al, r), so.Mem(z3.Select(arr, r), x)), z3.And(x != ty.null, z3.Select(al, x))),
                                patterns=[so.Mem(z3.Select(arr, r), x)]))


def wf_after_havoc(E: Engine, st: State, ms: dict):
    wf_keys(E, st, list(ms.keys()))


def frame_formula(E: Engine, fr: Frame, st: State, key):
    """Objects outside the enclosing function's modifies clause hold their function-entry value."""
    if fr.modsets is None or fr.old is None or key[0] in ("alloc", "glob", "itsrc", "itpos"):
        return None
    if ("*",) in fr.modsets:
        return None
    if fr.contract is not None and fr.contract.gen:
        return None   # coroutine: the environment acts at every yield; frames are the two-state step postconditions
    entries = fr.modsets.get(key)
    if entries is not None and any(e[0] == "all" for e in entries):
        return None
    r = fresh("r", ty.RefSort)
    cond = z3.Select(E.alloc(fr.old), r)
    if entries:
        cond = z3.And(cond, not_in_modset(entries, r))
    now, was = E.h(st, key), E.h(fr.old, key)
    body = z3.Implies(cond, z3.Select(now, r) == z3.Select(was, r))
    try:
        return QForAll([r], body, patterns=[z3.Select(now, r)])
    except z3.Z3Exception:
        return QForAll([r], body)


def loop_frame_assumption(E: Engine, st: State, fr: Frame, key, new, at_entry):
    f = frame_formula(E, fr, st, key)
    if f is not None:
        st.assume(f)


def loop_frame_check(E: Engine, st: State, fr: Frame, keys, k, kind):
    """The inductive step behind loop_frame_assumption: entry state and the end of one iteration satisfy it."""
    if not fr.verify:
        return
    for key in keys:
        f = frame_formula(E, fr, st, key)
        if f is not None:
            E.oblige(fr, st, kind, f"loop{k}:{keyname(key)}", f, info="locations outside the modifies clause are unchanged since function entry")


def fn_table(E: Engine):
    """Distinct reference constants for the functions in Segment.SCALING_FUNCS (read from the real class)."""
    if not hasattr(E, "_fn_table"):
        tbl = {}
        names = {}
        try:
            m = E.native_module("eudoxia.workload.pipeline")
            for k, f in m.Segment.SCALING_FUNCS.items():
                q = f"eudoxia.workload.pipeline:ScalingFuncs.{f.__name__}"
                c = z3.Const("fn!" + f.__name__, ty.RefSort)
                tbl[q] = c
                names[k] = c
        except Exception as e:  # pragma: no cover
            raise CheckerError(f"cannot read Segment.SCALING_FUNCS: {e}")
        E._fn_table = tbl
        E._fn_names = names
        if len(tbl) > 1:
            E.extra_axioms.append(z3.Distinct(*tbl.values()))
        E.extra_axioms.append(z3.And(*[c != ty.null for c in tbl.values()]))
    return E._fn_table


# bind helpers onto the engine
Engine.modset = modset
Engine.havoc_modset = havoc_modset
Engine.wf_keys = wf_keys
Engine.wf_value = wf_value
Engine.wf_after_havoc = wf_after_havoc
Engine.loop_frame_assumption = loop_frame_assumption
Engine.loop_frame_check = loop_frame_check
Engine.fn_table = fn_table
Engine.call_function = calls.call_function
Engine.apply_contract = calls.apply_contract


# ------------------------------------------------------------------------------- verification
def entry_state(E: Engine, q: str, c: FnContract):
    fn = E.prog.func(q)
    mod, _, name = q.split("#")[0].partition(":")
    cls = name.split(".")[0] if "." in name else None
    st = State()
    a = fn.args
    pnames = [p.arg for p in a.posonlyargs + a.args + a.kwonlyargs]
    is_static = q.split("#")[0] in E.prog.statics
    for i, p in enumerate(pnames):
        if i == 0 and cls is not None and not is_static and p == "self":
            t = ty.Ref(cls)
        elif p in c.params:
            t = c.params[p]
        else:
            raise CheckerError(f"{q}: contract gives no type for parameter {p}")
        z = z3.Const(f"arg_{p}", ty.zsort(t))
        st.locals[p] = V(t, z)
    if a.kwarg is not None:
        pass
    is_init = name.endswith(".__init__")
    al = E.alloc(st)
    for p, v in st.locals.items():
        if ty.is_reflike(v.t) and v.t.kind != "fn":
            if p == "self":
                st.assume(v.z != ty.null)
                if is_init:
                    st.assume(z3.Not(z3.Select(al, v.z)))
                else:
                    st.assume(z3.Select(al, v.z))
            else:
                st.assume(z3.Or(v.z == ty.null, z3.Select(al, v.z)))
    if is_init:
        # a constructor runs on a fresh object: allocate it now
        st.heap[("alloc",)] = z3.Store(al, st.locals["self"].z, True)
    return fn, mod, cls, st


def touched_keys(E: Engine, st: State, old: State):
    out = []
    for key, arr in st.heap.items():
        b = E.h(old, key)
        if arr is not b and not arr.eq(b):
            out.append(key)
    return out


def verify_function(E: Engine, q: str) -> dict:
    """Generates all obligations for function q against its contract. Returns summary info."""
    c = E.spec.fns[q]
    E.verifying = q
    E.nl = c.nl
    E.spec_default_reads = c.default_reads
    E.exists_mem_patterns = c.exists_mem_patterns
    fn, mod, cls, st = entry_state(E, q, c)
    # attachment checks
    nloops = len(loops_of(fn))
    for k in c.loops:
        if k >= nloops:
            raise AttachError(f"{q}: contract has an invariant for loop {k} but the function has {nloops} loop(s)")
    fr = Frame(q, mod, cls, c, fn, spec=False, verify=True)
    fr.entry_locals = dict(st.locals)
    # wf of the initial heap for every key (lazily: for keys that appear later we add at first havoc)
    n0 = len(E.obligations)
    # requires
    pre_frame = Frame(q, mod, cls, c, fn, old=None, spec=True, entry_locals=dict(st.locals))
    for r in c.requires:
        st.assume(E.sev_bool(r, st, pre_frame))
    old = st.copy()
    if q.split("#")[0].endswith(".__init__"):
        # the object under construction is not part of the pre-state: writes to it are outside the frame
        old.heap[("alloc",)] = z3.Store(E.alloc(st), st.locals["self"].z, False)
    fr.old = old
    fr.modsets = modset(E, c, view(old), Frame(q, mod, cls, c, None, old=None, spec=True, entry_locals=dict(st.locals)))
    # vacuity: the precondition must be satisfiable
    E.obligations.append(__import__("pyvc.engine", fromlist=["Obligation"]).Obligation(
        f"{short(q)}:cover:requires", list(st.pc), z3.BoolVal(True), "cover", q, "precondition satisfiable", "sat"))
    for label, expr in c.covers.items():
        g = E.sev_bool(expr, st.copy(), pre_frame)
        E.obligations.append(__import__("pyvc.engine", fromlist=["Obligation"]).Obligation(
            f"{short(q)}:cover:{label}", list(st.pc), g, "cover", q, expr, "sat"))
    if c.gen:
        from .coroutine import verify_generator
        return verify_generator(E, q, c, fn, fr, st, old)
    if q.split("#")[0].endswith(".__init__") and "self" in st.locals:
        E.under_construction.append(st.locals["self"].z)      # the object being constructed by the function under verification
    try:
        outs = E.ex_block(fn.body, st, fr)
    finally:
        if q.split("#")[0].endswith(".__init__") and "self" in st.locals:
            E.under_construction.pop()
    outs = outs + fr.exc
    fr.exc = []
    n_normal = 0
    for o in outs:
        if o.kind in ("ok", "ret"):
            n_normal += 1
            # vacuity guard: the normal return must not be refutable from the assumptions made on the way
            from .engine import Obligation
            E.obligations.append(Obligation(f"{short(q)}:cover:end", list(o.st.pc), z3.BoolVal(True), "cover", q,
                                            "normal return reachable", "sat", tuple(sorted(E.function_tags(q)))))
            val = o.val if o.kind == "ret" else V(NONE, ty.null)
            check_post(E, fr, c, o.st, old, val, c.ensures, "post", c)
            check_frame(E, fr, c, o.st, old, "frame")
        elif o.kind == "raise":
            from .engine import exc_matches
            declared = o.exc if o.exc in c.raises else next((h for h in c.raises if exc_matches(o.exc, h)), None)
            if declared is not None:
                check_post(E, fr, c, o.st, old, None, c.raises[declared], f"raises:{declared}", c)
                check_frame(E, fr, c, o.st, old, f"frame:{declared}")
            else:
                E.oblige(fr, o.st, "noraise", f"{o.exc}", z3.BoolVal(False), info=f"exception edge at {o.where}")
        else:
            raise CheckerError(f"{q}: stray {o.kind}")
    return {"function": q, "obligations": len(E.obligations) - n0, "normal_paths": n_normal}


def view(st: State) -> State:
    v = State()
    v.locals = dict(st.locals)
    v.heap = st.heap
    v.pc = st.pc
    return v


def check_post(E, fr, c, st, old, val, posts, kind, contract):
    binds = {}
    if val is not None:
        if c.returns is not None and val.z is not None and c.returns.kind != "none":
            val = E.coerce(val, c.returns) if val.t != c.returns else val
        binds["result"] = val
    pfr = Frame(fr.qname, fr.module, fr.cls, c, fr.fn, old=old, spec=True, entry_locals=fr.entry_locals, binds=binds)
    pfr.verify = True
    from .spec import split_tags
    for i, p in enumerate(posts):
        g = E.sev_bool(p, st, pfr, binds)
        label = contract.label(i) if kind == "post" else str(i)
        tags, body = split_tags(p)
        E.oblige(fr, st, kind, label, g, info=body, tags=tags)


def check_frame(E, fr, c, st, old, kind):
    ms = fr.modsets or {}
    if ("*",) in ms:
        return
    old_alloc = E.alloc(old)
    for key in touched_keys(E, st, old):
        if key[0] in ("alloc", "itsrc", "itpos"):
            continue
        now, was = E.h(st, key), E.h(old, key)
        entries = ms.get(key)
        if key[0] == "glob":
            if entries is None:
                E.oblige(fr, st, kind, keyname(key), now == was, info="global not in modifies")
            continue
        if entries is not None and any(e[0] == "all" for e in entries):
            continue
        r = fresh("fr", ty.RefSort)
        cond = z3.Select(old_alloc, r)
        if entries:
            cond = z3.And(cond, not_in_modset(entries, r))
        E.oblige(fr, st, kind, keyname(key), QForAll([r], z3.Implies(cond, z3.Select(now, r) == z3.Select(was, r))),
                 info=f"only locations in the modifies clause change ({keyname(key)})")


def keyname(key):
    return ".".join(str(x) for x in key if not isinstance(x, T)) + "".join("<" + str(x) + ">" for x in key if isinstance(x, T) and key[0] != "fld")

"""Discharging obligations: z3 (E-matching only) in a process pool, cvc5 CLI for z3's unknowns,
a model phase (MBQI on) for obligations left open."""
from __future__ import annotations
import os
import subprocess
import tempfile
import time
from concurrent.futures import ProcessPoolExecutor
import z3
from . import prelude


def _mk_solver(mbqi, timeout_ms: int, rlimit: int | None):
    s = z3.Solver()
    s.set("auto_config", False)
    if mbqi == "split":
        # second configuration of the portfolio: same E-matching-only proving, different case-split heuristic
        s.set("mbqi", False)
        s.set("case_split", 3)
    else:
        s.set("mbqi", bool(mbqi))
    s.set("timeout", timeout_ms)
    if rlimit:
        s.set("rlimit", rlimit)
    return s


def _solve_text(args):
    smt2, timeout_ms, rlimit, mbqi, want_model = args
    t0 = time.time()
    try:
        s = _mk_solver(mbqi, timeout_ms, rlimit)
        s.from_string(smt2)
        r = s.check()
        out = str(r)
        model = ""
        reason = ""
        if r == z3.sat and want_model:
            try:
                model = s.model().sexpr()[:20000]
            except Exception as e:  # pragma: no cover
                model = f"<model unavailable: {e}>"
        if r == z3.unknown:
            reason = s.reason_unknown()
        return out, time.time() - t0, model, reason
    except Exception as e:
        return "error", time.time() - t0, "", repr(e)


_G = {}   # obligations / axioms shared with forked workers (z3 ASTs are used in place, no serialisation)


def _solve_idx(args):
    i, timeout_ms, rlimit, mbqi, want_model = args
    t0 = time.time()
    try:
        ob = _G["obs"][i]
        s = _mk_solver(mbqi, timeout_ms, rlimit)
        for a in _G["axioms"]:
            s.add(a)
        for p in ob.pc:
            s.add(p)
        s.add(ob.goal if ob.expect == "sat" else z3.Not(ob.goal))
        r = s.check()
        out = str(r)
        model, reason = "", ""
        if r == z3.sat and want_model:
            try:
                model = s.model().sexpr()[:20000]
            except Exception as e:  # pragma: no cover
                model = f"<model unavailable: {e}>"
        if r == z3.unknown:
            reason = s.reason_unknown()
        return out, time.time() - t0, model, reason
    except Exception as e:
        return "error", time.time() - t0, "", repr(e)


def _cvc5(smt2: str, timeout_s: int):
    t0 = time.time()
    with tempfile.NamedTemporaryFile("w", suffix=".smt2", delete=False, dir=os.environ.get("PYVC_TMP", None)) as f:
        f.write("(set-logic ALL)\n" + smt2 + "\n(check-sat)\n" if "(check-sat)" not in smt2 else "(set-logic ALL)\n" + smt2)
        path = f.name
    try:
        p = subprocess.run(["/usr/bin/cvc5", "--lang=smt2", f"--tlimit={timeout_s * 1000}", path],
                           capture_output=True, text=True, timeout=timeout_s + 5)
        out = (p.stdout.strip().splitlines() or ["unknown"])[0]
    except Exception:
        out = "unknown"
    finally:
        try:
            os.unlink(path)
        except OSError:
            pass
    return out, time.time() - t0


def to_smt2(axioms, pc, goal, negate=True) -> str:
    s = z3.Solver()
    for a in axioms:
        s.add(a)
    for p in pc:
        s.add(p)
    s.add(z3.Not(goal) if negate else goal)
    return s.to_smt2()


class Result:
    def __init__(self, name, kind, func, info):
        self.name, self.kind, self.func, self.info = name, kind, func, info
        self.instances = 0
        self.status = "discharged"   # discharged | refuted | open | vacuous | error
        self.backends = set()
        self.time = 0.0
        self.model = ""
        self.reason = ""
        self.expect = "valid"
        self.smt_size = 0

    def to_json(self):
        return {"name": self.name, "kind": self.kind, "function": self.func, "instances": self.instances,
                "status": self.status, "backends": sorted(self.backends), "solver_s": round(self.time, 3),
                "clause": self.info, "smt_bytes": self.smt_size}


def discharge(E, obligations, jobs=16, timeout_ms=20000, rlimit=None, use_cvc5=True, model_phase=True, executor=None):
    import multiprocessing as mp
    from . import arith
    axioms = prelude.all_axioms() + list(E.extra_axioms) + (arith.axioms(E) if ('rmul' in E.uf or 'rdiv' in E.uf) else [])
    _G["obs"] = obligations
    _G["axioms"] = axioms
    ctx = mp.get_context("fork")
    ex = ctx.Pool(processes=jobs)
    own = True
    try:
        tasks = [(i, timeout_ms, rlimit, False, False) for i in range(len(obligations))]
        outs = ex.map(_solve_idx, tasks, chunksize=1)
        results: dict[str, Result] = {}
        retry = []
        for i, (ob, (out, dt, _m, reason)) in enumerate(zip(obligations, outs)):
            r = results.setdefault(ob.name, Result(ob.name, ob.kind, ob.func, ob.info))
            r.instances += 1
            r.time += dt
            r.expect = ob.expect
            r.smt_size = max(r.smt_size, sum(1 for _ in ob.pc))
            if ob.expect == "sat":
                # cover / vacuity guard: must NOT be refutable
                r.backends.add("z3")
                if out == "unsat":
                    r.status = "vacuous"
                    r.reason = "path condition unsatisfiable: the contract's assumptions exclude every execution"
                continue
            if out == "unsat":
                r.backends.add("z3")
                continue
            if out == "error":
                r.status = "error"
                r.reason = reason
                continue
            retry.append((i, ob, out, reason))
        # portfolio: a second z3 configuration (in parallel) for what the first left open
        if retry:
            t2 = [(i, timeout_ms, rlimit, "split", False) for i, _ob, _o, _r in retry]
            outs2 = ex.map(_solve_idx, t2, chunksize=1)
            still = []
            for (i, ob, out, reason), (o2, dt2, _m, r2) in zip(retry, outs2):
                r = results[ob.name]
                r.time += dt2
                if o2 == "unsat":
                    r.backends.add("z3-split")
                else:
                    still.append((i, ob, out, reason))
            retry = still
        retry = [(ob, (to_smt2(axioms, ob.pc, ob.goal, negate=True), timeout_ms), out, reason) for i, ob, out, reason in retry] \
            if (use_cvc5 or model_phase) else [(ob, ("", timeout_ms), out, reason) for i, ob, out, reason in retry]
        # second back end for what z3 left open
        rank = {"discharged": 0, "error": 1, "open": 2, "refuted": 3, "vacuous": 4}
        for ob, task, out, reason in retry:
            r = results[ob.name]
            inst = "open"
            if use_cvc5 and task[0]:
                c_out, dt = _cvc5(task[0], max(5, timeout_ms // 1000))
                r.time += dt
                if c_out == "unsat":
                    r.backends.add("cvc5")
                    inst = "discharged"
            if inst == "open" and model_phase and task[0]:
                m_out, dt, model, _ = _solve_text((task[0], min(timeout_ms, 10000), None, True, True))
                r.time += dt
                if m_out == "sat":
                    inst = "refuted"
                    if not r.model:
                        r.model = model
                elif m_out == "unsat":
                    # MBQI found the refutation E-matching missed: still a proof (z3, mbqi)
                    r.backends.add("z3-mbqi")
                    inst = "discharged"
            if inst != "discharged":
                r.reason = f"z3: {out} ({reason})"
            if rank[inst] > rank[r.status]:
                r.status = inst
        return list(results.values())
    finally:
        ex.close()
        ex.join()
        _G.clear()

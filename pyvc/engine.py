"""Forward verification-condition generator over Python ASTs (the subset eudoxia uses).

Execution is symbolic with state merging: `if` branches and inlined callees are merged by
if-then-else, loops are cut at invariants (no unrolling), calls to functions that carry a
contract are replaced by the contract, exceptions are explicit edges.  Every obligation is
recorded as (name, path condition, goal) and discharged later by pyvc.solve.

What of Python's semantics the encoding assumes is documented in DESIGN.md section 2.3.
"""
from __future__ import annotations
import ast
import os
import itertools
from dataclasses import dataclass, field
import z3
from .qa import ForAll as QForAll
from . import ty
from .ty import T
from .ty import INT, REAL, BOOL, STR, NONE
from .prelude import seq_ops
from .program import Program, loops_of, assigned_names
from .spec import Spec, FnContract, LoopSpec, parse_expr


class CheckerError(Exception):
    """The checker itself cannot proceed (bad contract, unsupported construct): exit 3."""


class AttachError(CheckerError):
    """A contract no longer matches the code shape (loop/function disappeared): exit 2."""


class V:
    __slots__ = ("t", "z", "py")

    def __init__(self, t: T, z=None, py=None):
        self.t, self.z, self.py = t, z, py

    def __repr__(self):
        return f"V({self.t}, {self.z if self.z is not None else self.py})"


PYCONST = T("pyconst")   # a python-level constant collection read from the real module
PYCASE = T("pycase")     # [(cond, pyobj)] selection among python constants
CLASSREF = T("classref")
MODREF = T("modref")
FUNCREF = T("funcref")
BOUND = T("bound")       # bound method (receiver V, name)

EXC_PARENTS = {
    "KeyError": "LookupError", "IndexError": "LookupError", "LookupError": "Exception",
    "AssertionError": "Exception", "ValueError": "Exception", "TypeError": "Exception",
    "StopIteration": "Exception", "ZeroDivisionError": "ArithmeticError", "ArithmeticError": "Exception",
    "AttributeError": "Exception", "RuntimeError": "Exception", "EudoxiaException": "Exception",
    "HTTPError": "Exception", "SystemExit": "BaseException", "Exception": "BaseException",
}


def exc_matches(exc: str, handler: str | None) -> bool:
    if handler is None:
        return True
    e = exc
    while e is not None:
        if e == handler:
            return True
        e = EXC_PARENTS.get(e)
    return False


_fresh = itertools.count()


def fresh(name: str, sort) -> z3.ExprRef:
    return z3.Const(f"{name}!{next(_fresh)}", sort)


@dataclass
class Obligation:
    name: str
    pc: list
    goal: object
    kind: str
    func: str
    info: str = ""
    expect: str = "valid"
    tags: tuple = ()   # "valid": pc => goal must hold;  "sat": pc /\ goal must be satisfiable (cover)


class State:
    __slots__ = ("locals", "heap", "pc", "resume", "writes", "decisions")

    def __init__(self):
        self.locals: dict[str, V] = {}
        self.heap: dict[tuple, object] = {}
        self.pc: list = []
        self.resume: "State | None" = None   # generator verification: snapshot at the last resumption point
        self.writes: dict = {}               # heap key -> list of written object refs, or None (= anywhere)
        self.decisions: set = set()          # id() of the pc entries that are branch decisions (the rest are facts)

    def copy(self) -> "State":
        s = State()
        s.locals = dict(self.locals)
        s.heap = dict(self.heap)
        s.pc = list(self.pc)
        s.resume = self.resume
        s.writes = {k: (None if v is None else list(v)) for k, v in self.writes.items()}
        s.decisions = set(self.decisions)
        return s

    def note_write(self, key, obj):
        if obj is None:
            self.writes[key] = None
        elif self.writes.get(key, []) is not None:
            self.writes.setdefault(key, []).append(obj)

    def snapshot(self) -> "State":
        s = self.copy()
        s.resume = None
        return s

    def assume(self, c, decision=False):
        if z3.is_true(c):
            return
        self.pc.append(c)
        if decision:
            self.decisions.add(id(c))


@dataclass
class Outcome:
    kind: str            # ok | ret | raise | break | cont
    st: State
    val: V | None = None
    exc: str | None = None
    where: str = ""


@dataclass
class Frame:
    qname: str
    module: str
    cls: str | None
    contract: FnContract | None
    fn: ast.AST | None
    old: State | None = None
    spec: bool = False
    binds: dict = field(default_factory=dict)      # spec-mode bound variables / result
    exc: list = field(default_factory=list)        # exceptional outcomes raised inside expressions
    depth: int = 0
    loops: list = field(default_factory=list)
    callsite_counts: dict = field(default_factory=dict)
    entry_locals: dict = field(default_factory=dict)
    modsets: dict | None = None                    # heap key -> list of (kind, payload) in OLD state
    loop_entry: list = field(default_factory=list) # stack of loop-entry states (for at_entry())
    verify: bool = False                           # True for the function being verified (obligations recorded)
    label_prefix: str = ""
    comp_defs: list | None = None                  # definedness collector inside comprehensions
    yields: list = field(default_factory=list)


class Engine:
    def __init__(self, prog: Program, spec: Spec, nl: str = "uf"):
        self.prog = prog
        self.spec = spec
        self.obligations: list[Obligation] = []
        self.dry = 0
        self.abstracted: set[str] = set()
        self.dropped: set[str] = set()
        self.assumptions: set[str] = set()
        self.heap0: dict[tuple, object] = {}
        self.imm: dict[tuple, z3.FuncDeclRef] = {}
        self.nl = nl
        self.uf: dict[str, z3.FuncDeclRef] = {}
        self.extra_axioms: list = []
        self.measure_arrays: dict[str, object] = {}
        self.under_construction: list = []             # references whose constructor is being executed symbolically
        self.exists_mem_patterns = False               # contract option: any(... for x in seq) gets the pattern Mem(seq, x)
        self.spec_default_reads = False                 # contract option: d[k] in a specification reads a defaultdict as `get(k, 0)`
        self._native_mods: dict[str, object] = {}
        self.fmt_templates: dict[str, z3.FuncDeclRef] = {}
        self.stats = {"inlined": set(), "contracts_used": set()}
        self.dry_keep_resume = False
        self.resume_state = None   # generator verification: state at the last resumption point

    # ================================================================== helpers: sorts / heap
    def key_sort(self, key: tuple):
        k = key[0]
        if k == "fld":
            return z3.ArraySort(ty.RefSort, ty.zsort(key[3]))
        if k == "list":
            return z3.ArraySort(ty.RefSort, ty.seq_sort(key[1]))
        if k == "dk":
            return z3.ArraySort(ty.RefSort, ty.seq_sort(key[1]))
        if k == "dv":
            return z3.ArraySort(ty.RefSort, z3.ArraySort(ty.zsort(key[1]), ty.zsort(key[2])))
        if k == "set":
            return z3.ArraySort(ty.RefSort, z3.ArraySort(ty.zsort(key[1]), z3.BoolSort()))
        if k == "alloc":
            return z3.ArraySort(ty.RefSort, z3.BoolSort())
        if k == "itsrc":
            return z3.ArraySort(ty.RefSort, ty.RefSort)
        if k == "itpos":
            return z3.ArraySort(ty.RefSort, z3.IntSort())
        if k == "glob":
            return ty.zsort(key[3])
        raise CheckerError(f"unknown heap key {key}")

    def h(self, st: State, key: tuple):
        if key in st.heap:
            return st.heap[key]
        if key not in self.heap0:
            name = "H0_" + "_".join(str(x) for x in key if not isinstance(x, T)) + "".join("_" + ty.sort_key(x) for x in key if isinstance(x, T))
            self.heap0[key] = z3.Const(name, self.key_sort(key))
            self.wf_initial(key)
        return self.heap0[key]

    def wf_initial(self, key):
        """Well-formedness of the initial heap: references stored in allocated objects are allocated."""
        if key == ("alloc",):
            return
        if ("alloc",) not in self.heap0:
            self.heap0[("alloc",)] = z3.Const("H0_alloc", self.key_sort(("alloc",)))
        al = self.heap0[("alloc",)]
        arr = self.heap0[key]
        r = z3.Const("wr", ty.RefSort)
        x = z3.Const("wx", ty.RefSort)
        if key[0] == "fld" and ty.is_reflike(key[3]) and key[3].kind != "fn":
            self.extra_axioms.append(QForAll([r], z3.Implies(z3.Select(al, r), z3.Or(z3.Select(arr, r) == ty.null, z3.Select(al, z3.Select(arr, r)))),
                                               patterns=[z3.Select(arr, r)]))
        if key[0] in ("list", "dk") and ty.is_reflike(key[1]):
            so = seq_ops(key[1])
            self.extra_axioms.append(QForAll([r, x], z3.Implies(z3.And(z3.Select(al, r), so.Mem(z3.Select(arr, r), x)),
                                                                  z3.And(x != ty.null, z3.Select(al, x))),
                                               patterns=[so.Mem(z3.Select(arr, r), x)]))
        if key[0] == "dv" and ty.is_reflike(key[2]) and ty.is_reflike(key[1]):
            pass

    def hset(self, st: State, key: tuple, arr, obj=None):
        st.heap[key] = arr
        st.note_write(key, obj)

    def fld_key(self, cls: str, name: str):
        """Resolve a field on static class `cls` (searching bases, then subclasses)."""
        r = self.spec.field(cls, name, self.prog.mro(cls))
        if r is None:
            # subclasses (e.g. Node -> Operator)
            cands = []
            for c in self.spec.classes:
                if cls in self.prog.mro(c) and name in self.spec.classes[c]["fields"]:
                    cands.append(c)
            if len(cands) == 1:
                t, imm = self.spec.classes[cands[0]]["fields"][name]
                r = (cands[0], t, imm)
        if r is None:
            raise CheckerError(f"class schema: no field {cls}.{name} declared in the sidecar contracts")
        return r

    def get_field(self, st: State, obj: V, name: str) -> V:
        cls = obj.t.args[0]
        owner, t, imm = self.fld_key(cls, name)
        if imm:
            f = self.imm_fn(owner, name, t)
            z = f(obj.z)
        else:
            z = z3.Select(self.h(st, ("fld", owner, name, t)), obj.z)
        return V(t, z)

    def imm_fn(self, owner, name, t):
        k = (owner, name)
        if k not in self.imm:
            f = z3.Function(f"{owner}.{name}", ty.RefSort, ty.zsort(t))
            self.imm[k] = f
            if name in self.spec.classes.get(owner, {}).get("owned", ()):
                # ownership by construction: the container is created fresh by the owner's constructor
                inv = z3.Function(f"owner_of_{owner}.{name}", ty.RefSort, ty.RefSort)
                tag = self.ufn("owned_tag", ty.RefSort, z3.IntSort())
                r = z3.Const("wr", ty.RefSort)
                self.owned_tags = getattr(self, "owned_tags", {})
                self.owned_tags[k] = len(self.owned_tags) + 1
                self.extra_axioms.append(QForAll([r], z3.And(inv(f(r)) == r, tag(f(r)) == self.owned_tags[k]), patterns=[f(r)]))
                self.assumptions.add("ownership by construction: container-valued fields marked `owned` hold a container created by the owner's constructor (scan-checked), so distinct owners/fields never share one")
            if t.kind in ("list", "dict", "set"):
                # container-valued immutable fields are never None and are allocated with their owner
                if ("alloc",) not in self.heap0:
                    self.heap0[("alloc",)] = z3.Const("H0_alloc", self.key_sort(("alloc",)))
                al = self.heap0[("alloc",)]
                r = z3.Const("wr", ty.RefSort)
                self.extra_axioms.append(QForAll([r], z3.Implies(z3.Select(al, r), z3.And(f(r) != ty.null, z3.Select(al, f(r)))), patterns=[f(r)]))
            elif t.kind == "ref":
                if ("alloc",) not in self.heap0:
                    self.heap0[("alloc",)] = z3.Const("H0_alloc", self.key_sort(("alloc",)))
                al = self.heap0[("alloc",)]
                r = z3.Const("wr", ty.RefSort)
                self.extra_axioms.append(QForAll([r], z3.Implies(z3.Select(al, r), z3.Or(f(r) == ty.null, z3.Select(al, f(r)))), patterns=[f(r)]))
        return self.imm[k]

    def set_field(self, st: State, obj: V, name: str, val: V, init: bool = False):
        cls = obj.t.args[0]
        owner, t, imm = self.fld_key(cls, name)
        val = self.coerce(val, t)
        if imm:
            if not init:
                raise CheckerError(f"store to field {owner}.{name} declared immutable outside a constructor of a fresh object")
            st.assume(self.imm_fn(owner, name, t)(obj.z) == val.z)
            return
        key = ("fld", owner, name, t)
        self.hset(st, key, z3.Store(self.h(st, key), obj.z, val.z), obj.z)

    def list_seq(self, st: State, lv: V):
        return z3.Select(self.h(st, ("list", lv.t.args[0])), lv.z)

    def set_list_seq(self, st: State, lv: V, seq):
        key = ("list", lv.t.args[0])
        self.hset(st, key, z3.Store(self.h(st, key), lv.z, seq), lv.z)

    def dict_keys(self, st, dv: V):
        return z3.Select(self.h(st, ("dk", dv.t.args[0])), dv.z)

    def dict_vals(self, st, dv: V):
        return z3.Select(self.h(st, ("dv", dv.t.args[0], dv.t.args[1])), dv.z)

    def spec_dict_get(self, st, dv: V, key: V) -> V:
        kt, vt = dv.t.args[:2]
        return V(vt, z3.Select(self.dict_vals(st, dv), self.coerce(key, kt).z))

    def set_dict(self, st, dv: V, keys=None, vals=None):
        if keys is not None:
            k = ("dk", dv.t.args[0])
            self.hset(st, k, z3.Store(self.h(st, k), dv.z, keys), dv.z)
        if vals is not None:
            k = ("dv", dv.t.args[0], dv.t.args[1])
            self.hset(st, k, z3.Store(self.h(st, k), dv.z, vals), dv.z)

    def set_arr(self, st, sv: V):
        return z3.Select(self.h(st, ("set", sv.t.args[0])), sv.z)

    def alloc(self, st):
        return self.h(st, ("alloc",))

    def new_ref(self, st: State, t: T, name="new") -> V:
        r = fresh(name, ty.RefSort)
        st.assume(r != ty.null)
        st.assume(z3.Not(z3.Select(self.alloc(st), r)))
        # heap well-formedness w.r.t. the CURRENT allocation map: what an allocated object references through an
        # immutable field is allocated too (so it cannot be the object created now)
        self.assume_imm_wf(st)
        # facts that survive path-condition pruning: not part of the initial heap (allocation only grows), and a
        # birth stamp per allocation point (objects of the initial heap have stamp 0): different stamps, different objects
        if ("alloc",) not in self.heap0:
            self.heap0[("alloc",)] = z3.Const("H0_alloc", self.key_sort(("alloc",)))
        al0 = self.heap0[("alloc",)]
        st.assume(z3.Not(z3.Select(al0, r)))
        birth = self.ufn("birth", ty.RefSort, z3.IntSort())
        self._births = getattr(self, "_births", 0) + 1
        st.assume(birth(r) == self._births)
        if not getattr(self, "_birth_axiom", False):
            self._birth_axiom = True
            x = z3.Const("bx", ty.RefSort)
            self.extra_axioms.append(QForAll([x], z3.Implies(z3.Select(al0, x), birth(x) == 0), patterns=[z3.Select(al0, x)]))
            self.extra_axioms.append(birth(ty.null) == 0)
        self.hset(st, ("alloc",), z3.Store(self.alloc(st), r, True))
        return V(t, r)

    def alloc_from_initial(self, st: State):
        """allocation only grows: whatever the initial heap holds is still allocated (stated against the initial
        allocation map so that the fact survives path-condition pruning)"""
        if ("alloc",) not in self.heap0:
            self.heap0[("alloc",)] = z3.Const("H0_alloc", self.key_sort(("alloc",)))
        al0, cur = self.heap0[("alloc",)], self.alloc(st)
        if cur is al0:
            return
        r = fresh("r", ty.RefSort)
        st.assume(QForAll([r], z3.Implies(z3.Select(al0, r), z3.Select(cur, r)), patterns=[z3.Select(cur, r)]))

    def assume_imm_wf(self, st: State):
        """what an allocated, FULLY CONSTRUCTED object references through an immutable field is allocated.  Objects whose
        constructor is still running (self.under_construction) are excluded: their immutable fields are assigned later,
        possibly to objects created after them (e.g. Node.__init__: self.id = uuid.uuid4())."""
        alc = self.alloc(st)
        wr = z3.Const("wr", ty.RefSort)
        done = [wr != u for u in self.under_construction]
        for (owner, fname), f in list(self.imm.items()):
            if f.range() == ty.RefSort and self.spec.classes.get(owner, {}).get("fields", {}).get(fname, (None,))[0] is not None \
                    and self.spec.classes[owner]["fields"][fname][0].kind != "fn":
                st.assume(QForAll([wr], z3.Implies(z3.And(z3.Select(alc, wr), *done), z3.Or(f(wr) == ty.null, z3.Select(alc, f(wr)))),
                                  patterns=[f(wr)]))

    def new_list(self, st, elem_t: T, seq=None) -> V:
        lv = self.new_ref(st, ty.List(elem_t), "list")
        self.set_list_seq(st, lv, seq if seq is not None else seq_ops(elem_t).Empty)
        return lv

    # ================================================================== values
    def const(self, pyval) -> V:
        if isinstance(pyval, bool):
            return V(BOOL, z3.BoolVal(pyval))
        if isinstance(pyval, int):
            return V(INT, z3.IntVal(pyval))
        if isinstance(pyval, float):
            return V(REAL, z3.RealVal(repr(pyval)) if pyval == pyval and abs(pyval) != float("inf") else fresh("nonfinite", z3.RealSort()))
        if isinstance(pyval, str):
            return V(STR, ty.str_lit(pyval))
        if pyval is None:
            return V(NONE, ty.null)
        import enum
        if isinstance(pyval, enum.Enum):
            name = type(pyval).__name__
            return V(ty.Enum(name), ty.enum_member(name, pyval.name))
        if isinstance(pyval, (list, tuple, dict, frozenset, set)):
            return V(PYCONST, None, pyval)
        raise CheckerError(f"cannot lift constant {pyval!r}")

    def coerce(self, v: V, t: T) -> V:
        if v.t == t:
            return v
        if t.kind == "real" and v.t.kind == "int":
            return V(REAL, z3.ToReal(v.z))
        if t.kind == "real" and v.t.kind == "bool":
            return V(REAL, z3.If(v.z, z3.RealVal(1), z3.RealVal(0)))
        if t.kind == "int" and v.t.kind == "bool":
            return V(INT, z3.If(v.z, 1, 0))
        if t.kind == "opt":
            inner = t.args[0]
            dt, none, some, val, is_none = ty.opt_sort(inner)
            if v.t.kind == "none":
                return V(t, none)
            if v.t.kind == "opt":
                if ty.sort_key(v.t.args[0]) == ty.sort_key(inner):
                    return V(t, v.z)
                _d, _n, _s, val2, isn2 = ty.opt_sort(v.t.args[0])
                return V(t, z3.If(isn2(v.z), none, some(self.coerce(V(v.t.args[0], val2(v.z)), inner).z)))
            return V(t, some(self.coerce(v, inner).z))
        if ty.is_reflike(t) and ty.is_reflike(v.t):
            return V(t, v.z)
        if v.t.kind == "opt" and t == v.t.args[0]:
            if getattr(self, "_spec_depth", 0) == 0:
                # executed code hands a possibly-None value to a place the sidecar types as non-optional (Python converts nothing):
                # the statement that does so owes a proof that the value is not None (flushed by ex_stmt)
                self.__dict__.setdefault("_pending_unwrap", []).append(ty.opt_sort(t)[4](v.z))
            return V(t, ty.opt_sort(t)[3](v.z))
        if v.t.kind == "opt" and t.kind == "real" and v.t.args[0].kind == "int":
            if getattr(self, "_spec_depth", 0) == 0:
                self.__dict__.setdefault("_pending_unwrap", []).append(ty.opt_sort(INT)[4](v.z))
            return V(REAL, z3.ToReal(ty.opt_sort(INT)[3](v.z)))
        if t.kind == "tuple" and v.t.kind == "tuple" and len(t.args) == len(v.t.args):
            parts = [self.coerce(self.tuple_get(v, i), t.args[i]) for i in range(len(t.args))]
            dt, mk, accs = ty.tuple_sort(t)
            return V(t, mk(*[p.z for p in parts]))
        if t.kind == "int" and v.t.kind == "real":
            # Python converts nothing here: a real value that flows into a place the sidecar types as int stays a float.
            # Accepted only where the value is integral by construction (an integer literal written as a real, or an integer
            # that was widened); anything else is outside the typing the contracts assume and the function is reported as unreachable
            z = z3.simplify(v.z)
            if z3.is_rational_value(z) and z.denominator_as_long() == 1:
                return V(INT, z3.IntVal(z.numerator_as_long()))
            if z3.is_app_of(z, z3.Z3_OP_TO_REAL):
                return V(INT, z.arg(0))
            raise CheckerError("a real value flows into a place the sidecar contracts type as int (Python performs no conversion there)")
        raise CheckerError(f"cannot coerce {v.t} to {t}")

    def join_t(self, a: T, b: T) -> T:
        if a == b:
            return a
        if ty.is_num(a) and ty.is_num(b):
            return REAL
        if a.kind == "none" and ty.is_reflike(b):
            return b
        if b.kind == "none" and ty.is_reflike(a):
            return a
        if a.kind == "none":
            return b if b.kind == "opt" else ty.Opt(b)
        if b.kind == "none":
            return a if a.kind == "opt" else ty.Opt(a)
        if a.kind == "opt" and b.kind != "opt":
            return ty.Opt(self.join_t(a.args[0], b))
        if b.kind == "opt" and a.kind != "opt":
            return ty.Opt(self.join_t(a, b.args[0]))
        if a.kind == "opt" and b.kind == "opt":
            return ty.Opt(self.join_t(a.args[0], b.args[0]))
        if ty.is_reflike(a) and ty.is_reflike(b):
            return a
        if a.kind == "bool" and ty.is_num(b):
            return b
        if b.kind == "bool" and ty.is_num(a):
            return a
        raise CheckerError(f"cannot join types {a} and {b}")

    def ite(self, c, a: V, b: V) -> V:
        if a is b:
            return a
        t = self.join_t(a.t, b.t)
        if t.kind in ("pyconst",):
            raise CheckerError("cannot merge python-constant values")
        az, bz = self.coerce(a, t).z, self.coerce(b, t).z
        if az is bz or (az is not None and bz is not None and az.eq(bz)):
            return V(t, az)
        return V(t, z3.If(c, az, bz))

    def truthy(self, v: V, st: State, fr: Frame):
        k = v.t.kind
        if k == "bool":
            return v.z
        if k == "int":
            return v.z != 0
        if k == "real":
            return v.z != 0
        if k == "none":
            return z3.BoolVal(False)
        if k == "str":
            return v.z != ty.str_lit("")
        if k == "list":
            return z3.And(v.z != ty.null, seq_ops(v.t.args[0]).Len(self.list_seq(st, v)) > 0)
        if k == "seqv":
            return seq_ops(v.t.args[0]).Len(v.z) > 0
        if k == "dict":
            return z3.And(v.z != ty.null, seq_ops(v.t.args[0]).Len(self.dict_keys(st, v)) > 0)
        if k == "ref":
            return v.z != ty.null
        if k == "opt":
            dt, none, some, val, is_none = ty.opt_sort(v.t.args[0])
            inner = self.truthy(V(v.t.args[0], val(v.z)), st, fr)
            return z3.And(z3.Not(is_none(v.z)), inner)
        if k == "pyconst":
            return z3.BoolVal(bool(v.py))
        raise CheckerError(f"truthiness of {v.t} not modelled")

    # ================================================================== obligations
    def oblige(self, fr: Frame, st: State, kind: str, label: str, goal, info: str = "", expect="valid", tags=None):
        if self.dry or not fr.verify:
            return
        vq = getattr(self, "verifying", None) or fr.qname
        name = f"{short(vq)}:{kind}:{label}" if label else f"{short(vq)}:{kind}"
        if tags is None:
            tags = self.function_tags(vq)
        pc = list(st.pc)
        for g in (split_goal(goal) if expect == "valid" else [goal]):
            self.obligations.append(Obligation(name, pc, g, kind, vq, info, expect, tuple(tags)))

    def function_tags(self, q):
        """tags of an obligation without its own label: the function's owners plus every property that has a
        labelled clause in this function (its proof rests on the function's unlabelled obligations too)"""
        cache = self.__dict__.setdefault("_ftags", {})
        if q not in cache:
            from .spec import split_tags
            c = self.spec.fns.get(q)
            tags = set()
            if c is not None:
                tags.update(c.owners)
                texts = list(c.ensures) + [i for l in c.loops.values() for i in l.inv] + [x for v in c.raises.values() for x in v]
                if c.gen:
                    texts += [p for _l, p in c.gen.get("step_post", [])] + [x for v in c.gen.get("yield_inv", {}).values() for x in v]
                for t in texts:
                    tags.update(split_tags(t)[0] or ())
            cache[q] = tuple(sorted(tags))
        return cache[q]

    def raise_edge(self, fr: Frame, st: State, cond, exc: str, where: str):
        """Fork an exceptional edge taken when `cond` holds; the normal path continues with not cond."""
        if fr.spec:
            return
        if z3.is_false(cond):
            return
        if self.quick_infeasible(st, cond):
            st.assume(z3.Not(cond))
            return
        es = st.copy()
        es.assume(cond, True)
        fr.exc.append(Outcome("raise", es, None, exc, where))
        st.assume(z3.Not(cond), True)

    def quick_infeasible(self, st: State, cond) -> bool:
        """Cheap, sound filter for exception edges: the edge is dropped only if the path condition (without
        any background axiom) already refutes it within a tiny budget."""
        if self.dry:
            return False
        try:
            s = z3.Solver()
            s.set("timeout", 150)
            s.set("auto_config", False)
            s.set("mbqi", False)
            for p in st.pc:
                if not z3.is_quantifier(p):
                    s.add(p)
            s.add(cond)
            return s.check() == z3.unsat
        except z3.Z3Exception:
            return False

    # ================================================================== arithmetic
    def ufn(self, name, *sorts):
        if name not in self.uf:
            self.uf[name] = z3.Function(name, *sorts)
        return self.uf[name]

    def is_constz(self, z) -> bool:
        z = z3.simplify(z)
        return z3.is_rational_value(z) or z3.is_int_value(z) or z3.is_algebraic_value(z)

    def mul(self, a: V, b: V) -> V:
        if a.t.kind == "int" and b.t.kind == "int":
            if self.nl == "native" or self.is_constz(a.z) or self.is_constz(b.z):
                return V(INT, a.z * b.z)
            f = self.ufn("imul", z3.IntSort(), z3.IntSort(), z3.IntSort())
            return V(INT, f(a.z, b.z))
        ar, br = self.coerce(a, REAL).z, self.coerce(b, REAL).z
        if self.nl == "native" or self.is_constz(ar) or self.is_constz(br):
            return V(REAL, ar * br)
        f = self.ufn("rmul", z3.RealSort(), z3.RealSort(), z3.RealSort())
        return V(REAL, f(ar, br))

    def div(self, a: V, b: V) -> V:
        ar, br = self.coerce(a, REAL).z, self.coerce(b, REAL).z
        brs = z3.simplify(br)
        if z3.is_app_of(brs, z3.Z3_OP_ITE) and self.nl != "native":
            c, x, y = brs.children()
            return V(REAL, z3.If(c, self.div(a, V(REAL, x)).z, self.div(a, V(REAL, y)).z))
        if self.nl == "native" or self.is_constz(br):
            return V(REAL, ar / br)
        f = self.ufn("rdiv", z3.RealSort(), z3.RealSort(), z3.RealSort())
        return V(REAL, f(ar, br))

    def to_int(self, v: V) -> V:
        """Python int(): truncation toward zero."""
        if v.t.kind == "int":
            return v
        if v.t.kind == "bool":
            return self.coerce(v, INT)
        r = self.coerce(v, REAL).z
        return V(INT, z3.If(r >= 0, z3.ToInt(r), -z3.ToInt(-r)))

    # ================================================================== native constants
    def native_module(self, mod: str):
        if mod not in self._native_mods:
            import importlib, logging, sys
            logging.disable(logging.CRITICAL)
            if self.prog.root not in sys.path:
                sys.path.insert(0, self.prog.root)
            self._native_mods[mod] = importlib.import_module(mod)
        return self._native_mods[mod]

    def module_const(self, mod: str, name: str):
        """Value of a module-level constant, read from the real module of the working tree."""
        m = self.native_module(mod)
        if not hasattr(m, name):
            raise KeyError(name)
        return getattr(m, name)

    # ================================================================== name resolution
    def resolve_name(self, name: str, st: State, fr: Frame) -> V:
        if fr.spec and name in fr.binds:
            return fr.binds[name]
        if name in st.locals:
            return st.locals[name]
        if fr.spec and name in fr.entry_locals:
            return fr.entry_locals[name]
        if fr.spec and ("$ghost_" + name) in st.locals:
            return st.locals["$ghost_" + name]
        if name in ("True", "False"):
            return V(BOOL, z3.BoolVal(name == "True"))
        if name in self.prog.enums:
            return V(CLASSREF, None, name)
        if name in self.prog.classes:
            return V(CLASSREF, None, name)
        if name in ("np", "math", "time", "logger", "logging", "requests", "csv", "uuid", "random", "sys"):
            return V(MODREF, None, name)
        # module-level function?
        q = self.find_function(name, fr.module)
        if q:
            return V(FUNCREF, None, q)
        # module-level constant of the function's module (imported names included)
        try:
            val = self.module_const(fr.module, name)
        except Exception:
            val = None
            for m in getattr(self.spec, "const_modules", []):
                try:
                    val = self.module_const(m, name)
                    break
                except Exception:
                    continue
            if val is not None:
                pass
            elif name in self.prog.consts:
                val = self.prog.consts[name]
            else:
                raise CheckerError(f"{fr.qname}: unresolved name {name!r}")
        if False:
            if name in self.prog.consts:
                val = self.prog.consts[name]
            else:
                raise CheckerError(f"{fr.qname}: unresolved name {name!r}")
        import types
        if isinstance(val, type):
            return V(CLASSREF, None, val.__name__)
        if isinstance(val, types.ModuleType):
            return V(MODREF, None, name)
        return self.const(val)

    def find_function(self, name: str, module: str) -> str | None:
        q = f"{module}:{name}"
        if q in self.prog.funcs:
            return q
        cands = [k for k in self.prog.funcs if k.endswith(":" + name)]
        if len(cands) == 1:
            return cands[0]
        return None

    # ================================================================== expression evaluation
    def ev(self, node: ast.AST, st: State, fr: Frame) -> V:
        m = getattr(self, "ev_" + type(node).__name__, None)
        if m is None:
            raise CheckerError(f"{fr.qname}: expression form {type(node).__name__} not modelled (line {getattr(node, 'lineno', '?')})")
        if fr.spec:
            self._spec_depth = getattr(self, "_spec_depth", 0) + 1
            try:
                return m(node, st, fr)
            finally:
                self._spec_depth -= 1
        return m(node, st, fr)

    def ev_Constant(self, node, st, fr):
        return self.const(node.value)

    def ev_Name(self, node, st, fr):
        return self.resolve_name(node.id, st, fr)

    def ev_JoinedStr(self, node, st, fr):
        # f-string: an uninterpreted, injective function of its holes per template text
        holes, tmpl = [], []
        for part in node.values:
            if isinstance(part, ast.Constant):
                tmpl.append(str(part.value))
            else:
                tmpl.append("{}")
                try:
                    hv = self.ev(part.value, st, fr)
                except CheckerError:
                    hv = None
                holes.append(hv)
        key = "".join(tmpl)
        if any(h is None or h.z is None for h in holes) or not holes:
            if not holes:
                return V(STR, ty.str_lit(key))
            self.abstracted.add(f"f-string {key!r}: opaque value")
            return V(STR, fresh("fstr", ty.StrSort))
        sorts = [h.z.sort() for h in holes]
        f = self.fmt_fn(key, sorts)
        return V(STR, f(*[h.z for h in holes]))

    def fmt_fn(self, key: str, sorts):
        fname = "fmt_" + ty.safe_name(key) + "_" + "_".join(str(s) for s in sorts)
        if fname not in self.fmt_templates:
            f = z3.Function(fname, *sorts, ty.StrSort)
            self.fmt_templates[fname] = f
            invs = []
            xs = [z3.Const(f"x{i}", s) for i, s in enumerate(sorts)]
            for i, s in enumerate(sorts):
                inv = z3.Function(f"{fname}_inv{i}", ty.StrSort, s)
                invs.append(QForAll(xs, inv(f(*xs)) == xs[i], patterns=[f(*xs)]))
            self.extra_axioms.extend(invs)
            self.assumptions.add("A-STR: an f-string with holes is an injective function of its hole values (per template)")
        return self.fmt_templates[fname]

    def _unused_fmt(self, holes, fname):
        return V(STR, self.fmt_templates[fname](*[h.z for h in holes]))

    def ev_FormattedValue(self, node, st, fr):
        return self.ev(node.value, st, fr)

    def ev_Tuple(self, node, st, fr):
        vals = [self.ev(e, st, fr) for e in node.elts]
        return self.mk_tuple(vals)

    def mk_tuple(self, vals: list[V]) -> V:
        t = ty.Tuple(*[v.t for v in vals])
        dt, mk, accs = ty.tuple_sort(t)
        return V(t, mk(*[v.z for v in vals]))

    def tuple_get(self, v: V, i: int) -> V:
        dt, mk, accs = ty.tuple_sort(v.t)
        return V(v.t.args[i], accs[i](v.z))

    def ev_List(self, node, st, fr):
        vals = [self.ev(e, st, fr) for e in node.elts]
        hint = getattr(node, "_elem_t", None)
        if not vals and hint is None:
            raise CheckerError(f"{fr.qname}: element type of empty list literal at line {node.lineno} unknown (add a `locals` hint)")
        et = hint or vals[0].t
        for v in vals[1:]:
            et = self.join_t(et, v.t)
        so = seq_ops(et)
        seq = so.Empty
        for v in vals:
            seq = so.App(seq, self.coerce(v, et).z)
        if fr.spec:
            return V(ty.SeqV(et), seq)
        return self.new_list(st, et, seq)

    def ev_Dict(self, node, st, fr):
        hint = getattr(node, "_dict_t", None)
        keys = [self.ev(k, st, fr) for k in node.keys]
        vals = [self.ev(v, st, fr) for v in node.values]
        if hint is None and not keys:
            raise CheckerError(f"{fr.qname}: type of empty dict literal at line {node.lineno} unknown (add a `locals` hint)")
        if hint is not None:
            kt, vt = hint.args
        else:
            kt, vt = keys[0].t, vals[0].t
            for v in vals[1:]:
                vt = self.join_t(vt, v.t)
        dv = self.new_ref(st, ty.Dict(kt, vt), "dict")
        so = seq_ops(kt)
        kseq = so.Empty
        varr = z3.Select(self.h(st, ("dv", kt, vt)), dv.z)
        for k, v in zip(keys, vals):
            kz = self.coerce(k, kt).z
            kseq = z3.If(so.Mem(kseq, kz), kseq, so.App(kseq, kz)) if len(keys) > 1 and not all(self.is_lit(x) for x in keys) else so.App(kseq, kz)
            varr = z3.Store(varr, kz, self.coerce(v, vt).z)
        self.set_dict(st, dv, kseq, varr)
        return dv

    def is_lit(self, v: V) -> bool:
        return v.z is not None and (v.t.kind in ("str", "enum", "int")) and v.z.num_args() == 0

    def ev_UnaryOp(self, node, st, fr):
        v = self.ev(node.operand, st, fr)
        if isinstance(node.op, ast.Not):
            return V(BOOL, z3.Not(self.truthy(v, st, fr)))
        if isinstance(node.op, ast.USub):
            return V(v.t, -v.z)
        if isinstance(node.op, ast.UAdd):
            return v
        raise CheckerError(f"unary op {node.op}")

    def ev_BoolOp(self, node, st, fr):
        # short-circuit: later operands are evaluated under the assumption made by earlier ones
        is_and = isinstance(node.op, ast.And)
        vals, conds, guards = [], [], []
        for e in node.values:
            base = len(st.pc)
            if guards:
                st.pc.append(z3.And(*guards))
            v = self.ev(e, st, fr)
            added = st.pc[base + (1 if guards else 0):]
            del st.pc[base:]
            for a in added:
                st.pc.append(z3.Implies(z3.And(*guards), a) if guards else a)
            vals.append(v)
            c = self.truthy(v, st, fr)
            conds.append(c)
            guards.append(c if is_and else z3.Not(c))
        if all(v.t.kind == "bool" for v in vals):
            return V(BOOL, (z3.And if is_and else z3.Or)(*[v.z for v in vals]))
        # value semantics: `a and b` is b if truthy(a) else a; `a or b` is a if truthy(a) else b
        res = vals[-1]
        for v, c in reversed(list(zip(vals[:-1], conds[:-1]))):
            res = self.ite(c, res, v) if is_and else self.ite(c, v, res)
        return res

    def ev_IfExp(self, node, st, fr):
        c = self.truthy(self.ev(node.test, st, fr), st, fr)
        base = len(st.pc)
        h0 = dict(st.heap)
        st.pc.append(c)
        a = self.ev(node.body, st, fr)
        ta = st.pc[base + 1:]
        del st.pc[base:]
        ha = dict(st.heap)
        st.heap = dict(h0)
        st.pc.append(z3.Not(c))
        b = self.ev(node.orelse, st, fr)
        tb = st.pc[base + 1:]
        del st.pc[base:]
        hb = dict(st.heap)
        st.pc.extend(z3.Implies(c, x) for x in ta)
        st.pc.extend(z3.Implies(z3.Not(c), x) for x in tb)
        # heap effects of a branch (e.g. the list built by `[x] if x else None`) happen only when that branch is taken
        if any(ha.get(k) is not hb.get(k) for k in set(ha) | set(hb)):
            tmp = State()
            tmp.heap = dict(h0)
            merged = dict(h0)
            for k in set(ha) | set(hb):
                xa = ha[k] if k in ha else self.h(tmp, k)
                xb = hb[k] if k in hb else self.h(tmp, k)
                merged[k] = xa if (xa is xb or xa.eq(xb)) else z3.If(c, xa, xb)
            st.heap = merged
        return self.ite(c, a, b)

    def ev_BinOp(self, node, st, fr):
        a = self.ev(node.left, st, fr)
        b = self.ev(node.right, st, fr)
        return self.binop(node.op, a, b, st, fr, node)

    def num(self, v: V, st, fr, where="") -> V:
        """Unwrap an optional number (TypeError edge when None)."""
        if v.t.kind == "opt":
            dt, none, some, val, is_none = ty.opt_sort(v.t.args[0])
            self.raise_edge(fr, st, is_none(v.z), "TypeError", where)
            return V(v.t.args[0], val(v.z))
        if v.t.kind == "bool":
            return self.coerce(v, INT)
        if v.t.kind == "none":
            self.raise_edge(fr, st, z3.BoolVal(True), "TypeError", where)
            return V(REAL, fresh("undef", z3.RealSort()))
        return v

    def binop(self, op, a: V, b: V, st, fr, node=None) -> V:
        where = f"L{getattr(node, 'lineno', '?')}"
        if isinstance(op, ast.Add) and (a.t.kind in ("list", "seqv") or b.t.kind in ("list", "seqv")):
            sa, et = self.as_seq(a, st)
            sb, _ = self.as_seq(b, st)
            cat = seq_ops(et).Cat(sa, sb)
            return V(ty.SeqV(et), cat) if fr.spec else self.new_list(st, et, cat)
        if isinstance(op, ast.Add) and a.t.kind == "str":
            f = self.ufn("str_concat", ty.StrSort, ty.StrSort, ty.StrSort)
            return V(STR, f(a.z, b.z))
        a, b = self.num(a, st, fr, where), self.num(b, st, fr, where)
        if not (ty.is_num(a.t) and ty.is_num(b.t)):
            raise CheckerError(f"{fr.qname}: arithmetic on {a.t} and {b.t} at {where}")
        both_int = a.t.kind == "int" and b.t.kind == "int"
        if isinstance(op, (ast.Add, ast.Sub)):
            if both_int:
                return V(INT, a.z + b.z if isinstance(op, ast.Add) else a.z - b.z)
            ar, br = self.coerce(a, REAL).z, self.coerce(b, REAL).z
            return V(REAL, ar + br if isinstance(op, ast.Add) else ar - br)
        if isinstance(op, ast.Mult):
            return self.mul(a, b)
        if isinstance(op, ast.Div):
            br = self.coerce(b, REAL).z
            self.raise_edge(fr, st, br == 0, "ZeroDivisionError", where)
            return self.div(a, b)
        if isinstance(op, (ast.FloorDiv, ast.Mod)) and both_int:
            self.raise_edge(fr, st, b.z == 0, "ZeroDivisionError", where)
            r = fresh("imod", z3.IntSort())
            q = fresh("idiv", z3.IntSort())
            # Python floor semantics for a positive divisor; other divisors leave the result unconstrained
            st.assume(z3.Implies(b.z > 0, z3.And(a.z == q * b.z + r, 0 <= r, r < b.z))) if self.is_constz(b.z) or self.nl == "native" \
                else st.assume(z3.Implies(b.z > 0, z3.And(0 <= r, r < b.z,
                                                            z3.Implies(z3.And(0 <= a.z, a.z < b.z), z3.And(r == a.z, q == 0)),
                                                            z3.Implies(a.z == b.z, z3.And(r == 0, q == 1)))))
            return V(INT, q if isinstance(op, ast.FloorDiv) else r)
        if isinstance(op, ast.FloorDiv) and not both_int:
            br = self.coerce(b, REAL).z
            self.raise_edge(fr, st, br == 0, "ZeroDivisionError", where)
            return V(REAL, z3.ToReal(z3.ToInt(self.div(a, b).z)))
        if isinstance(op, ast.Pow):
            if self.is_constz(b.z) and z3.simplify(b.z).as_long() == 2:
                return self.mul(a, a)
        raise CheckerError(f"{fr.qname}: binary operator {type(op).__name__} on {a.t},{b.t} not modelled at {where}")

    def as_seq(self, v: V, st: State):
        if v.t.kind == "list":
            return self.list_seq(st, v), v.t.args[0]
        if v.t.kind == "seqv":
            return v.z, v.t.args[0]
        if v.t.kind == "pyconst":
            vals = [self.const(x) for x in v.py]
            et = vals[0].t if vals else INT
            so = seq_ops(et)
            s = so.Empty
            for x in vals:
                s = so.App(s, x.z)
            return s, et
        raise CheckerError(f"not a sequence: {v.t}")

    # ---- comparisons -------------------------------------------------------------------
    def ev_Compare(self, node, st, fr):
        left = self.ev(node.left, st, fr)
        conj = []
        for op, rn in zip(node.ops, node.comparators):
            right = self.ev(rn, st, fr)
            conj.append(self.compare(op, left, right, st, fr, node))
            left = right
        return V(BOOL, z3.And(*conj) if len(conj) > 1 else conj[0])

    def eq(self, a: V, b: V, st, fr):
        if a.t.kind == "none" or b.t.kind == "none":
            o = b if a.t.kind == "none" else a
            if o.t.kind == "none":
                return z3.BoolVal(True)
            if o.t.kind == "opt":
                return ty.opt_sort(o.t.args[0])[4](o.z)
            if ty.is_reflike(o.t):
                return o.z == ty.null
            return z3.BoolVal(False)
        if a.t.kind == "funcref" or b.t.kind == "funcref":
            tbl = self.fn_table()
            conv = lambda v: V(ty.Fn("scaling"), tbl[v.py]) if v.t.kind == "funcref" and v.py in tbl else v
            a, b = conv(a), conv(b)
            if a.t.kind == "funcref" or b.t.kind == "funcref":
                raise CheckerError("comparison with a function that is not in Segment.SCALING_FUNCS")
            return a.z == b.z
        if a.t.kind == "pyconst" or b.t.kind == "pyconst":
            raise CheckerError("equality on python constants not modelled")
        if a.t.kind in ("list", "dict", "set") and b.t.kind == a.t.kind and not fr.spec:
            # structural equality of containers is not used by the code under contract
            self.abstracted.add("== on containers: reference equality implies equality; otherwise unknown")
            return z3.Or(a.z == b.z, fresh("cmp", z3.BoolSort()))
        t = self.join_t(a.t, b.t)
        return self.coerce(a, t).z == self.coerce(b, t).z

    def compare(self, op, a: V, b: V, st, fr, node=None):
        where = f"L{getattr(node, 'lineno', '?')}"
        if isinstance(op, (ast.Is, ast.Eq)):
            if isinstance(op, ast.Eq) and a.t.kind == "seqv" and b.t.kind in ("seqv", "list"):
                return a.z == self.as_seq(b, st)[0]
            if isinstance(op, ast.Eq) and b.t.kind == "seqv" and a.t.kind == "list":
                return self.as_seq(a, st)[0] == b.z
            return self.eq(a, b, st, fr)
        if isinstance(op, (ast.IsNot, ast.NotEq)):
            return z3.Not(self.compare(ast.Eq(), a, b, st, fr, node))
        if isinstance(op, ast.In):
            return self.contains(b, a, st, fr, where)
        if isinstance(op, ast.NotIn):
            return z3.Not(self.contains(b, a, st, fr, where))
        a, b = self.num(a, st, fr, where), self.num(b, st, fr, where)
        if not (ty.is_num(a.t) and ty.is_num(b.t)):
            raise CheckerError(f"{fr.qname}: ordering comparison on {a.t},{b.t} at {where}")
        if a.t != b.t:
            a, b = self.coerce(a, REAL), self.coerce(b, REAL)
        if isinstance(op, ast.Lt): return a.z < b.z
        if isinstance(op, ast.LtE): return a.z <= b.z
        if isinstance(op, ast.Gt): return a.z > b.z
        if isinstance(op, ast.GtE): return a.z >= b.z
        raise CheckerError(f"comparison {op}")

    def contains(self, coll: V, x: V, st, fr, where=""):
        k = coll.t.kind
        if k == "pyconst":
            items = list(coll.py.keys()) if isinstance(coll.py, dict) else list(coll.py)
            return z3.Or(*[self.eq(x, self.const(i), st, fr) for i in items]) if items else z3.BoolVal(False)
        if k == "pycase":
            return z3.Or(*[z3.And(c, self.contains(self.const(obj), x, st, fr)) for c, obj in coll.py])
        if k == "tuple":
            return z3.Or(*[self.eq(x, self.tuple_get(coll, i), st, fr) for i in range(len(coll.t.args))])
        if k in ("list", "seqv"):
            seq, et = self.as_seq(coll, st)
            return seq_ops(et).Mem(seq, self.coerce(x, et).z)
        if k == "dict":
            kt = coll.t.args[0]
            return seq_ops(kt).Mem(self.dict_keys(st, coll), self.coerce(x, kt).z)
        if k == "set":
            return z3.Select(self.set_arr(st, coll), self.coerce(x, coll.t.args[0]).z)
        if k == "arr" and coll.t.args[1] == BOOL:
            return z3.Select(coll.z, self.coerce(x, coll.t.args[0]).z)
        raise CheckerError(f"{fr.qname}: `in` on {coll.t} not modelled {where}")

    # ---- attribute / subscript ------------------------------------------------------------
    def ev_Attribute(self, node, st, fr):
        base = self.ev(node.value, st, fr)
        return self.getattr(base, node.attr, st, fr, node)

    def getattr(self, base: V, attr: str, st, fr, node=None) -> V:
        where = f"L{getattr(node, 'lineno', '?')}"
        k = base.t.kind
        if k == "classref":
            cname = base.py
            if cname in self.prog.enums:
                return V(ty.Enum(cname), ty.enum_member(cname, attr))
            mod, _n = self.prog.classes[cname]
            q = f"{mod}:{cname}.{attr}"
            if q in self.prog.funcs:
                return V(FUNCREF, None, q)
            ck = f"{mod}:{cname}.{attr}"
            if ck in self.prog.const_nodes:
                r = self.spec.field(cname, attr, self.prog.mro(cname))
                if r is not None:   # mutable class attribute declared in schema -> global cell
                    return V(r[1], self.h(st, ("glob", cname, attr, r[1])))
                return self.const(getattr(getattr(self.native_module(mod), cname), attr))
            raise CheckerError(f"{fr.qname}: class attribute {cname}.{attr} not modelled")
        if k == "modref" or k == "super":
            return V(BOUND, None, (base, attr))
        if k == "enum":
            ename = base.t.args[0]
            if attr == "value":
                vals = self.prog.enums[ename]
                sample = next(iter(vals.values()))
                res = None
                for m, pv in reversed(list(vals.items())):
                    c = self.const(pv)
                    res = c if res is None else self.ite(base.z == ty.enum_member(ename, m), c, res)
                return res
            if attr == "name":
                res = None
                for m in reversed(list(self.prog.enums[ename])):
                    c = self.const(m)
                    res = c if res is None else self.ite(base.z == ty.enum_member(ename, m), c, res)
                return res
        if k == "opt" and base.t.args[0].kind == "ref":
            pass
        if k == "ref":
            cls = base.t.args[0]
            self.raise_edge(fr, st, base.z == ty.null, "AttributeError", where)
            # property?
            q = self.prog.method(cls, attr)
            if q is not None and q in self.prog.properties:
                return self.call_function(q, [base], {}, st, fr, node)
            if q is not None or f"ext:{cls}.{attr}" in self.spec.fns:
                return V(BOUND, None, (base, attr))
            if self.spec.field(cls, attr, self.prog.mro(cls)) is None:
                # `self.NAME` where NAME is a constant of the class body (never an instance field of the schema): the class constant
                for c in self.prog.mro(cls):
                    if c in self.prog.classes:
                        cmod, _n = self.prog.classes[c]
                        node_c = self.prog.const_nodes.get(f"{cmod}:{c}.{attr}")
                        if isinstance(node_c, ast.Constant) and isinstance(node_c.value, (int, float, str, bool)):
                            self.assumptions.add(f"{c}.{attr}: read through an instance as the class constant {node_c.value!r} (no instance attribute shadows it)")
                            return self.const(node_c.value)
            return self.read_field(st, base, attr, fr)
        if k in ("list", "dict", "set", "str", "seqv", "iter", "tuple"):
            if k == "tuple" and getattr(base, "py", None):
                pass
            return V(BOUND, None, (base, attr))
        if k == "none":
            self.raise_edge(fr, st, z3.BoolVal(True), "AttributeError", where)
            return V(NONE, ty.null)
        raise CheckerError(f"{fr.qname}: attribute {attr} on {base.t} not modelled at {where}")

    def read_field(self, st, base: V, attr: str, fr) -> V:
        v = self.get_field(st, base, attr)
        return v

    def ev_Subscript(self, node, st, fr):
        base = self.ev(node.value, st, fr)
        where = f"L{node.lineno}" if hasattr(node, "lineno") else ""
        if isinstance(node.slice, ast.Slice):
            lo = self.ev(node.slice.lower, st, fr) if node.slice.lower else None
            hi = self.ev(node.slice.upper, st, fr) if node.slice.upper else None
            if node.slice.step is not None:
                raise CheckerError("slice step not modelled")
            seq, et = self.as_seq(base, st)
            so = seq_ops(et)
            n = so.Len(seq)
            if hi is not None:
                hz = hi.z
                hz = z3.If(hz < 0, z3.If(n + hz < 0, 0, n + hz), z3.If(hz > n, n, hz))
                seq2 = so.Take(seq, hz)
            else:
                seq2 = seq
            if lo is not None:
                lz = lo.z
                lz = z3.If(lz < 0, z3.If(n + lz < 0, 0, n + lz), lz)
                seq2 = so.Drop(seq2, lz)
            if fr.spec:
                return V(ty.SeqV(et), seq2)
            return self.new_list(st, et, seq2)
        idx = self.ev(node.slice, st, fr)
        return self.subscript(base, idx, st, fr, where)

    def subscript(self, base: V, idx: V, st, fr, where="") -> V:
        k = base.t.kind
        if k in ("list", "seqv"):
            seq, et = self.as_seq(base, st)
            so = seq_ops(et)
            n = so.Len(seq)
            iz = idx.z
            self.raise_edge(fr, st, z3.Or(iz >= n, iz < -n), "IndexError", where)
            if fr.spec or (self.is_constz(iz) and z3.simplify(iz).as_long() >= 0):
                # specification-level indexing is mathematical (no negative indices)
                return V(et, so.At(seq, iz))
            return V(et, so.At(seq, z3.If(iz < 0, n + iz, iz)))
        if k == "dict" and len(base.t.args) == 3 and not fr.spec:
            # defaultdict(int): reading a missing key inserts the default 0
            kt, vt = base.t.args[:2]
            kz = self.coerce(idx, kt).z
            so = seq_ops(kt)
            keys, vals = self.dict_keys(st, base), self.dict_vals(st, base)
            present = so.Mem(keys, kz)
            zero = z3.IntVal(0) if vt.kind == "int" else z3.RealVal(0)
            self.set_dict(st, base, z3.If(present, keys, so.App(keys, kz)), z3.If(present, vals, z3.Store(vals, kz, zero)))
            return V(vt, z3.If(present, z3.Select(vals, kz), zero))
        if k == "dict" and len(base.t.args) == 3 and fr.spec and self.spec_default_reads:
            # specification-level read of a defaultdict(int): the value a read would give (0 for a missing key)
            kt, vt = base.t.args[:2]
            kz = self.coerce(idx, kt).z
            present = seq_ops(kt).Mem(self.dict_keys(st, base), kz)
            zero = z3.IntVal(0) if vt.kind == "int" else z3.RealVal(0)
            return V(vt, z3.If(present, z3.Select(self.dict_vals(st, base), kz), zero))
        if k == "dict":
            kt, vt = base.t.args[:2]
            kz = self.coerce(idx, kt).z
            present = seq_ops(kt).Mem(self.dict_keys(st, base), kz)
            if fr.comp_defs is not None:
                fr.comp_defs.append(("KeyError", present, where))
            self.raise_edge(fr, st, z3.Not(present), "KeyError", where)
            return V(vt, z3.Select(self.dict_vals(st, base), kz))
        if k == "tuple":
            if not self.is_constz(idx.z):
                raise CheckerError("tuple index must be constant")
            return self.tuple_get(base, z3.simplify(idx.z).as_long())
        if k == "pyconst":
            py = base.py
            if isinstance(py, dict):
                cases = [(self.eq(idx, self.const(kk), st, fr), vv) for kk, vv in py.items()]
                self.raise_edge(fr, st, z3.Not(z3.Or(*[c for c, _ in cases])) if cases else z3.BoolVal(True), "KeyError", where)
                if all(not isinstance(vv, (list, tuple, dict, set, frozenset)) for _c, vv in cases):
                    res = None
                    for c, vv in reversed(cases):
                        res = self.const(vv) if res is None else self.ite(c, self.const(vv), res)
                    return res
                return V(PYCASE, None, cases)
            if isinstance(py, (list, tuple)):
                if self.is_constz(idx.z):
                    return self.const(py[z3.simplify(idx.z).as_long()])
        if k == "classref" and base.py in self.prog.enums:
            # Priority["NAME"]
            ename = base.py
            res = None
            conds = []
            for m in self.prog.enums[ename]:
                c = idx.z == ty.str_lit(m)
                conds.append(c)
                val = V(ty.Enum(ename), ty.enum_member(ename, m))
                res = val if res is None else self.ite(c, val, res)
            self.raise_edge(fr, st, z3.Not(z3.Or(*conds)), "KeyError", where)
            return res
        raise CheckerError(f"{fr.qname}: subscript on {base.t} not modelled {where}")

    # ---- comprehensions --------------------------------------------------------------------
    def comp_iter(self, gen: ast.comprehension, st, fr):
        """Returns (kind, payload) describing the iterated domain of a comprehension clause."""
        it = gen.iter
        if isinstance(it, ast.Call) and isinstance(it.func, ast.Name) and it.func.id == "every":
            nm = it.args[0].value
            return "every", (STR if nm == "str" else INT if nm == "int" else ty.Ref(nm))
        if isinstance(it, ast.Call) and isinstance(it.func, ast.Name) and it.func.id == "range":
            args = [self.ev(a, st, fr) for a in it.args]
            lo, hi = (z3.IntVal(0), args[0].z) if len(args) == 1 else (args[0].z, args[1].z)
            return "range", (lo, hi)
        v = self.ev(it, st, fr)
        if v.t.kind == "classref" and v.py in self.prog.enums:
            ename = v.py
            return "finite", [V(ty.Enum(ename), ty.enum_member(ename, m)) for m in self.prog.enums[ename]]
        if v.t.kind == "pyconst" and not isinstance(v.py, dict):
            return "finite", [self.const(x) for x in v.py]
        if v.t.kind in ("list", "seqv", "pyconst"):
            seq, et = self.as_seq(v, st)
            return "seq", (seq, et)
        if v.t.kind == "dict":
            return "seq", (self.dict_keys(st, v), v.t.args[0])
        if v.t.kind == "ref" and v.t.args[0] == "DAG":
            raise CheckerError("iteration over a DAG inside a comprehension: use the pipeline's operator list spec")
        raise CheckerError(f"{fr.qname}: comprehension over {v.t} not modelled")

    def bind_target(self, target, val: V, binds: dict):
        if isinstance(target, ast.Name):
            binds[target.id] = val
        elif isinstance(target, ast.Tuple):
            for i, e in enumerate(target.elts):
                self.bind_target(e, self.tuple_get(val, i), binds)
        else:
            raise CheckerError("comprehension target form")

    def quantify(self, node, st, fr, universal: bool):
        """all(...)/any(...) over a generator expression -> quantified formula."""
        if len(node.generators) != 1:
            raise CheckerError("nested comprehension clauses not modelled")
        gen = node.generators[0]
        kind, payload = self.comp_iter(gen, st, fr)
        sub = Frame(fr.qname, fr.module, fr.cls, fr.contract, fr.fn, old=fr.old, spec=True, binds=dict(fr.binds),
                    entry_locals=fr.entry_locals, depth=fr.depth, loop_entry=fr.loop_entry)
        sub.comp_defs = [] if not fr.spec else None
        if kind == "finite":
            parts = []
            for item in payload:
                b = dict(sub.binds)
                self.bind_target(gen.target, item, b)
                sub2 = Frame(fr.qname, fr.module, fr.cls, fr.contract, fr.fn, old=fr.old, spec=True, binds=b,
                             entry_locals=fr.entry_locals, depth=fr.depth, loop_entry=fr.loop_entry)
                conds = [self.truthy(self.ev(c, st, sub2), st, sub2) for c in gen.ifs]
                body = self.truthy(self.ev(node.elt, st, sub2), st, sub2)
                g = z3.And(*conds) if conds else z3.BoolVal(True)
                parts.append(z3.Implies(g, body) if universal else z3.And(g, body))
            return (z3.And(*parts) if universal else z3.Or(*parts)) if parts else z3.BoolVal(universal)
        if kind == "range":
            lo, hi = payload
            i = fresh("qi", z3.IntSort())
            self.bind_target(gen.target, V(INT, i), sub.binds)
            dom = z3.And(lo <= i, i < hi)
            var = i
        elif kind == "every":
            x = fresh("qe", ty.zsort(payload))
            self.bind_target(gen.target, V(payload, x), sub.binds)
            dom = z3.BoolVal(True)
            var = x
        else:
            seq, et = payload
            x = fresh("qx", ty.zsort(et))
            self.bind_target(gen.target, V(et, x), sub.binds)
            dom = seq_ops(et).Mem(seq, x)
            var = x
        conds = [self.truthy(self.ev(c, st, sub), st, sub) for c in gen.ifs]
        body = self.truthy(self.ev(node.elt, st, sub), st, sub)
        guard = z3.And(dom, *conds) if conds else dom
        if sub.comp_defs:
            for exc, present, where in sub.comp_defs:
                self.oblige(fr, st, "def", f"{exc}@comprehension", QForAll([var], z3.Implies(dom, present)),
                            info=f"definedness inside comprehension at {where}")
        if universal:
            from .qa import nested_patterns
            full = z3.Implies(guard, body)
            pats = nested_patterns(var, full)
            if pats:
                return QForAll([var], full, patterns=pats)
            return QForAll([var], full)
        if kind == "seq" and self.exists_mem_patterns:
            # contract option: the negated form (a universal) is instantiated on the members of the sequence
            try:
                return z3.Exists([var], z3.And(guard, body), patterns=[dom])
            except z3.Z3Exception:
                pass   # the membership term contains a connective (merged heap version): leave pattern choice to z3
        return z3.Exists([var], z3.And(guard, body))

    def ev_GeneratorExp(self, node, st, fr):
        raise CheckerError(f"{fr.qname}: bare generator expression outside all/any/sum not modelled")

    def ev_ListComp(self, node, st, fr):
        if len(node.generators) != 1:
            raise CheckerError("nested comprehension clauses not modelled")
        gen = node.generators[0]
        kind, payload = self.comp_iter(gen, st, fr)
        if kind != "seq":
            # [expr for _ in range(n)]
            lo, hi = payload
            sub = Frame(fr.qname, fr.module, fr.cls, fr.contract, fr.fn, old=fr.old, spec=True, binds=dict(fr.binds),
                        entry_locals=fr.entry_locals, loop_entry=fr.loop_entry)
            i = fresh("ci", z3.IntSort())
            self.bind_target(gen.target, V(INT, i), sub.binds)
            try:
                elt = self.ev(node.elt, st, sub)
            except CheckerError:
                raise CheckerError(f"{fr.qname}: list comprehension over range with impure element not modelled (line {node.lineno})")
            so = seq_ops(elt.t)
            R = fresh("comp", so.S)
            st.assume(so.Len(R) == z3.If(hi > lo, hi - lo, 0))
            j = fresh("cj", z3.IntSort())
            st.assume(QForAll([j], z3.Implies(z3.And(0 <= j, j < so.Len(R)), so.At(R, j) == z3.substitute(elt.z, (i, lo + j))),
                                patterns=[so.At(R, j)]))
            return V(ty.SeqV(elt.t), R) if fr.spec else self.new_list(st, elt.t, R)
        seq, et = payload
        so = seq_ops(et)
        sub = Frame(fr.qname, fr.module, fr.cls, fr.contract, fr.fn, old=fr.old, spec=True, binds=dict(fr.binds),
                    entry_locals=fr.entry_locals, loop_entry=fr.loop_entry)
        x = fresh("cx", ty.zsort(et))
        self.bind_target(gen.target, V(et, x), sub.binds)
        conds = [self.truthy(self.ev(c, st, sub), st, sub) for c in gen.ifs]
        P = z3.And(*conds) if conds else z3.BoolVal(True)
        is_identity = isinstance(node.elt, ast.Name) and isinstance(gen.target, ast.Name) and node.elt.id == gen.target.id
        if is_identity:
            R = fresh("filt", so.S)
            y = fresh("fy", ty.zsort(et))
            Py = z3.substitute(P, (x, y))
            st.assume(QForAll([y], so.Mem(R, y) == z3.And(so.Mem(seq, y), Py), patterns=[so.Mem(R, y)]))
            st.assume(QForAll([y], z3.Implies(z3.And(so.Mem(seq, y), Py), so.Mem(R, y)), patterns=[so.Mem(seq, y)]))
            st.assume(so.Len(R) <= so.Len(seq))
            st.assume(z3.Implies(so.NoDup(seq), so.NoDup(R)))
            # order is preserved (first occurrences)
            y2 = fresh("fy2", ty.zsort(et))
            st.assume(QForAll([y, y2], z3.Implies(z3.And(so.Mem(R, y), so.Mem(R, y2), so.NoDup(seq)),
                                                    (so.Idx(R, y) < so.Idx(R, y2)) == (so.Idx(seq, y) < so.Idx(seq, y2))),
                                patterns=[z3.MultiPattern(so.Idx(R, y), so.Idx(R, y2))]))
            # counting form: |R| = number of positions satisfying P  (used for routing/partition arguments)
            cntf = self.ufn(f"CountP!{next(_fresh)}", so.S, z3.IntSort())
            self._last_filter = (R, seq, x, P, et)
            if conds and not fr.spec:
                # sums over a filtered list (lemma "filter-sum", proved by induction on the sequence in DESIGN.md 2.3 and
                # validated by exhaustive interpretation): Sum(filter(P, s), m) = Sum(s, mask_P(m)),  |filter(P, s)| = Sum(s, ind_P)
                n = next(_fresh)
                self.assumptions.add("filter-sum lemma for list comprehensions [x for x in s if P(x)] (Sum over the result = Sum over s of the masked map)")
                for vs, zero, one in ((z3.IntSort(), z3.IntVal(0), z3.IntVal(1)), (z3.RealSort(), z3.RealVal(0), z3.RealVal(1))):
                    if str(vs) not in so.sum_fns and vs != z3.IntSort():
                        continue
                    Sm = so.Sum(vs)
                    asort = z3.ArraySort(so.E, vs)
                    mask = z3.Function(f"mask!{n}_{vs}", asort, asort)
                    m = z3.Const(f"fm!{n}_{vs}", asort)
                    st.assume(QForAll([m], Sm(R, m) == Sm(seq, mask(m)), patterns=[Sm(R, m)]))
                    st.assume(QForAll([m, y], z3.Select(mask(m), y) == z3.If(Py, z3.Select(m, y), zero), patterns=[z3.Select(mask(m), y)]))
                    if vs == z3.IntSort():
                        st.assume(so.Len(R) == Sm(seq, mask(z3.K(so.E, one))))
                    # extensionality of sums over the members (only emitted where a filter occurs)
                    m1, m2 = z3.Const(f"xm1!{n}_{vs}", asort), z3.Const(f"xm2!{n}_{vs}", asort)
                    W = z3.Function(f"sumdiff!{n}_{vs}", so.S, asort, asort, so.E)
                    sv = z3.Const(f"xs!{n}_{vs}", so.S)
                    ax = QForAll([sv, m1, m2], z3.Or(Sm(sv, m1) == Sm(sv, m2),
                                                     z3.And(so.Mem(sv, W(sv, m1, m2)), z3.Select(m1, W(sv, m1, m2)) != z3.Select(m2, W(sv, m1, m2)))),
                                 patterns=[z3.MultiPattern(Sm(sv, m1), Sm(sv, m2))])
                    self.extra_axioms.append(ax)
            return V(ty.SeqV(et), R) if fr.spec else self.new_list(st, et, R)
        # map (with optional filter): only the length and pointwise image are characterised
        try:
            elt = self.ev(node.elt, st, sub)
        except CheckerError as e:
            raise CheckerError(f"{fr.qname}: list comprehension element not modelled (line {node.lineno}): {e}")
        so2 = seq_ops(elt.t)
        R = fresh("map", so2.S)
        if not conds:
            st.assume(so2.Len(R) == so.Len(seq))
            j = fresh("mj", z3.IntSort())
            st.assume(QForAll([j], z3.Implies(z3.And(0 <= j, j < so.Len(seq)),
                                                so2.At(R, j) == z3.substitute(elt.z, (x, so.At(seq, j)))), patterns=[so2.At(R, j)]))
        else:
            st.assume(so2.Len(R) <= so.Len(seq))
            y = fresh("my", so2.E)
            wit = self.ufn(f"mapwit!{next(_fresh)}", so2.E, so.E)
            st.assume(QForAll([y], z3.Implies(so2.Mem(R, y), z3.And(so.Mem(seq, wit(y)), z3.substitute(P, (x, wit(y))),
                                                                     y == z3.substitute(elt.z, (x, wit(y))))), patterns=[so2.Mem(R, y)]))
            xx = fresh("mx", so.E)
            st.assume(QForAll([xx], z3.Implies(z3.And(so.Mem(seq, xx), z3.substitute(P, (x, xx))),
                                                 so2.Mem(R, z3.substitute(elt.z, (x, xx)))), patterns=[so.Mem(seq, xx)]))
        return V(ty.SeqV(elt.t), R) if fr.spec else self.new_list(st, elt.t, R)

    def _comp_sub(self, gen, st, fr):
        kind, payload = self.comp_iter(gen, st, fr)
        sub = Frame(fr.qname, fr.module, fr.cls, fr.contract, fr.fn, old=fr.old, spec=True, binds=dict(fr.binds),
                    entry_locals=fr.entry_locals, loop_entry=fr.loop_entry)
        return kind, payload, sub

    def ev_DictComp(self, node, st, fr):
        """{k(x): v(x) for x in S}: key set = image of k, every key's value is v(x) for some x with that key
        (the last one wins in Python; if keys are distinct over S that is the only one)."""
        if len(node.generators) != 1 or node.generators[0].ifs:
            raise CheckerError(f"{fr.qname}: dict comprehension form at line {node.lineno} not modelled")
        gen = node.generators[0]
        kind, payload, sub = self._comp_sub(gen, st, fr)
        hint = getattr(node, "_dict_t", None)
        if kind == "finite":
            items = payload
            ks, vs = [], []
            for it in items:
                b = dict(sub.binds); self.bind_target(gen.target, it, b)
                sub2 = Frame(fr.qname, fr.module, fr.cls, fr.contract, fr.fn, old=fr.old, spec=True, binds=b, entry_locals=fr.entry_locals)
                ks.append(self.ev(node.key, st, sub2)); vs.append(self.ev(node.value, st, sub2))
            kt, vt = (hint.args if hint is not None else (ks[0].t, vs[0].t))
            dv = self.new_ref(st, ty.Dict(kt, vt), "dict")
            so = seq_ops(kt)
            kseq = so.Empty
            varr = z3.Select(self.h(st, ("dv", kt, vt)), dv.z)
            for k_, v_ in zip(ks, vs):
                kseq = so.App(kseq, self.coerce(k_, kt).z)
                varr = z3.Store(varr, self.coerce(k_, kt).z, self.coerce(v_, vt).z)
            st.assume(so.NoDup(kseq))
            self.set_dict(st, dv, kseq, varr)
            return dv
        if kind != "seq":
            raise CheckerError(f"{fr.qname}: dict comprehension over {kind} not modelled")
        seq, et = payload
        so = seq_ops(et)
        x = fresh("dx", ty.zsort(et))
        self.bind_target(gen.target, V(et, x), sub.binds)
        kx, vx = self.ev(node.key, st, sub), self.ev(node.value, st, sub)
        kt, vt = (hint.args if hint is not None else (kx.t, vx.t))
        kx, vx = self.coerce(kx, kt), self.coerce(vx, vt)
        dv = self.new_ref(st, ty.Dict(kt, vt), "dict")
        sk = seq_ops(kt)
        keys = fresh("dkeys", sk.S)
        vals = fresh("dvals", z3.ArraySort(ty.zsort(kt), ty.zsort(vt)))
        wit = self.ufn(f"dcwit!{next(_fresh)}", ty.zsort(kt), ty.zsort(et))
        y = fresh("dy", ty.zsort(kt))
        st.assume(sk.NoDup(keys))
        st.assume(sk.Len(keys) <= so.Len(seq))
        st.assume(QForAll([x], z3.Implies(so.Mem(seq, x), sk.Mem(keys, kx.z)), patterns=[so.Mem(seq, x)]))
        st.assume(QForAll([y], z3.Implies(sk.Mem(keys, y), z3.And(so.Mem(seq, wit(y)), z3.substitute(kx.z, (x, wit(y))) == y,
                                                                  z3.Select(vals, y) == z3.substitute(vx.z, (x, wit(y))))), patterns=[sk.Mem(keys, y)]))
        self.set_dict(st, dv, keys, vals)
        return dv

    def ev_SetComp(self, node, st, fr):
        if len(node.generators) != 1 or node.generators[0].ifs:
            raise CheckerError(f"{fr.qname}: set comprehension form at line {node.lineno} not modelled")
        gen = node.generators[0]
        kind, payload, sub = self._comp_sub(gen, st, fr)
        if kind != "seq":
            raise CheckerError(f"{fr.qname}: set comprehension over {kind} not modelled")
        seq, et = payload
        so = seq_ops(et)
        x = fresh("sx", ty.zsort(et))
        self.bind_target(gen.target, V(et, x), sub.binds)
        fx = self.ev(node.elt, st, sub)
        sv = self.new_ref(st, ty.Set(fx.t), "set")
        arr = fresh("setv", z3.ArraySort(ty.zsort(fx.t), z3.BoolSort()))
        wit = self.ufn(f"scwit!{next(_fresh)}", ty.zsort(fx.t), ty.zsort(et))
        y = fresh("sy", ty.zsort(fx.t))
        st.assume(QForAll([x], z3.Implies(so.Mem(seq, x), z3.Select(arr, fx.z)), patterns=[so.Mem(seq, x)]))
        st.assume(QForAll([y], z3.Implies(z3.Select(arr, y), z3.And(so.Mem(seq, wit(y)), z3.substitute(fx.z, (x, wit(y))) == y)),
                            patterns=[z3.Select(arr, y)]))
        key = ("set", fx.t)
        self.hset(st, key, z3.Store(self.h(st, key), sv.z, arr), sv.z)
        return sv

    def ev_Lambda(self, node, st, fr):
        return V(T("lambda"), None, node)

    # ---- calls -------------------------------------------------------------------------
    def ev_Call(self, node, st, fr):
        from .calls import eval_call
        return eval_call(self, node, st, fr)

    # ================================================================== statements
    def ex_block(self, stmts, st: State, fr: Frame) -> list[Outcome]:
        """Executes a block. Returns outcomes; at most one has kind 'ok'."""
        outs: list[Outcome] = []
        cur: State | None = st
        for s in stmts:
            if cur is None:
                break
            res = self.ex_stmt(s, cur, fr)
            cur = None
            oks = []
            for o in res:
                if o.kind == "ok":
                    oks.append(o.st)
                else:
                    outs.append(o)
            if oks:
                cur = oks[0] if len(oks) == 1 else self.merge_states(oks)
        if cur is not None:
            outs.append(Outcome("ok", cur))
        return outs

    def flush_exc(self, fr: Frame, outs: list):
        if fr.exc:
            outs.extend(fr.exc)
            fr.exc = []

    def ex_stmt(self, s, st: State, fr: Frame) -> list[Outcome]:
        m = getattr(self, "ex_" + type(s).__name__, None)
        if m is None:
            raise CheckerError(f"{fr.qname}: statement form {type(s).__name__} not modelled (line {s.lineno})")
        saved = fr.exc
        fr.exc = []
        outer_pending = self.__dict__.get("_pending_unwrap", [])
        self._pending_unwrap = []
        try:
            outs = m(s, st, fr)
        finally:
            pend, self._pending_unwrap = self._pending_unwrap, outer_pending
        if pend and not fr.spec:
            seen = []
            for is_none in pend:
                if any(is_none.eq(x) for x in seen):
                    continue
                seen.append(is_none)
                for o in outs:
                    if o.kind in ("ok", "ret") and o.st is not None:
                        self.oblige(fr, o.st, "unwrap", f"L{getattr(s, 'lineno', 0)}:{len(seen) - 1}", z3.Not(is_none),
                                    info="a possibly-None value reaches a place typed as non-optional")
        outs = list(outs) + fr.exc
        fr.exc = saved
        return outs

    def ex_Pass(self, s, st, fr):
        return [Outcome("ok", st)]

    def ex_Expr(self, s, st, fr):
        if isinstance(s.value, ast.Constant):
            return [Outcome("ok", st)]   # docstring
        if isinstance(s.value, ast.Yield):
            return self.ex_yield(s.value, st, fr)
        self.ev(s.value, st, fr)
        return [Outcome("ok", st)]

    def ex_yield(self, node, st, fr):
        from .coroutine import exec_yield
        return exec_yield(self, node, st, fr)

    def hint_literal(self, target, value, fr):
        if isinstance(target, ast.Name) and fr.contract is not None and target.id in fr.contract.locals:
            t = fr.contract.locals[target.id]
            if isinstance(value, ast.List) and t.kind == "list":
                value._elem_t = t.args[0]
            if isinstance(value, ast.Dict) and t.kind == "dict":
                value._dict_t = t

    def hint_from_field(self, target, value, st, fr):
        if isinstance(target, ast.Attribute) and isinstance(value, (ast.List, ast.Dict)) \
                and not (value.elts if isinstance(value, ast.List) else value.keys):
            try:
                base = self.ev(target.value, st.copy(), fr)
            except CheckerError:
                return
            if base.t.kind == "ref":
                try:
                    _o, t, _i = self.fld_key(base.t.args[0], target.attr)
                except CheckerError:
                    return
                if t.kind == "list" and isinstance(value, ast.List):
                    value._elem_t = t.args[0]
                if t.kind == "dict" and isinstance(value, ast.Dict):
                    value._dict_t = t

    def ex_Assign(self, s, st, fr):
        for tg in s.targets:
            self.hint_literal(tg, s.value, fr)
            self.hint_from_field(tg, s.value, st, fr)
        val = self.ev(s.value, st, fr)
        for tg in s.targets:
            self.assign(tg, val, st, fr)
        return [Outcome("ok", st)]

    def ex_AnnAssign(self, s, st, fr):
        if s.value is None:
            return [Outcome("ok", st)]
        self.hint_literal(s.target, s.value, fr)
        if isinstance(s.target, ast.Attribute) and isinstance(s.value, (ast.List, ast.Dict)) and not (s.value.elts if isinstance(s.value, ast.List) else s.value.keys):
            base = self.ev(s.target.value, st, fr)
            if base.t.kind == "ref":
                _o, t, _i = self.fld_key(base.t.args[0], s.target.attr)
                if t.kind == "list":
                    s.value._elem_t = t.args[0]
                if t.kind == "dict":
                    s.value._dict_t = t
        val = self.ev(s.value, st, fr)
        self.assign(s.target, val, st, fr)
        return [Outcome("ok", st)]

    def assign(self, target, val: V, st: State, fr: Frame):
        if isinstance(target, ast.Name):
            if fr.contract is not None and target.id in fr.contract.locals:
                want = fr.contract.locals[target.id]
                if val.t != want and val.t.kind not in ("pyconst", "pycase", "lambda", "bound", "funcref"):
                    val = self.coerce(val, want)
            st.locals[target.id] = val
            return
        if isinstance(target, ast.Attribute):
            base = self.ev(target.value, st, fr)
            if base.t.kind == "classref":
                r = self.spec.field(base.py, target.attr, self.prog.mro(base.py))
                if r is None:
                    raise CheckerError(f"store to undeclared class attribute {base.py}.{target.attr}")
                self.hset(st, ("glob", base.py, target.attr, r[1]), self.coerce(val, r[1]).z)
                return
            if base.t.kind != "ref":
                raise CheckerError(f"{fr.qname}: attribute store on {base.t}")
            self.raise_edge(fr, st, base.z == ty.null, "AttributeError", f"L{target.lineno}")
            init = fr.qname.split("#")[0].endswith(".__init__") and isinstance(target.value, ast.Name) and target.value.id == "self"
            owner, t, imm = self.fld_key(base.t.args[0], target.attr)
            if isinstance(val.t, T) and val.t.kind in ("list", "dict") and t.kind == val.t.kind and val.t != t:
                val = V(t, val.z)
            self.set_field(st, base, target.attr, val, init=init or self._fresh_obj(base, st))
            return
        if isinstance(target, ast.Subscript):
            base = self.ev(target.value, st, fr)
            idx = self.ev(target.slice, st, fr)
            self.store_subscript(base, idx, val, st, fr, f"L{target.lineno}")
            return
        if isinstance(target, (ast.Tuple, ast.List)):
            if val.t.kind == "tuple":
                for i, e in enumerate(target.elts):
                    self.assign(e, self.tuple_get(val, i), st, fr)
                return
            if val.t.kind in ("list", "seqv"):
                seq, et = self.as_seq(val, st)
                so = seq_ops(et)
                self.raise_edge(fr, st, so.Len(seq) != len(target.elts), "ValueError", f"L{target.lineno}")
                for i, e in enumerate(target.elts):
                    self.assign(e, V(et, so.At(seq, i)), st, fr)
                return
        raise CheckerError(f"{fr.qname}: assignment target {type(target).__name__} not modelled")

    def _fresh_obj(self, base: V, st: State) -> bool:
        return False

    def store_subscript(self, base: V, idx: V, val: V, st, fr, where=""):
        k = base.t.kind
        if k == "dict":
            kt, vt = base.t.args[:2]
            kz = self.coerce(idx, kt).z
            so = seq_ops(kt)
            keys = self.dict_keys(st, base)
            vals = self.dict_vals(st, base)
            present = so.Mem(keys, kz)
            newkeys = z3.If(present, keys, so.App(keys, kz))
            self.set_dict(st, base, newkeys, z3.Store(vals, kz, self.coerce(val, vt).z))
            return
        if k == "list":
            et = base.t.args[0]
            so = seq_ops(et)
            seq = self.list_seq(st, base)
            n = so.Len(seq)
            self.raise_edge(fr, st, z3.Or(idx.z >= n, idx.z < -n), "IndexError", where)
            iz = z3.If(idx.z < 0, n + idx.z, idx.z)
            new = fresh("upd", so.S)
            j = fresh("uj", z3.IntSort())
            st.assume(so.Len(new) == n)
            st.assume(QForAll([j], z3.Implies(z3.And(0 <= j, j < n), so.At(new, j) == z3.If(j == iz, self.coerce(val, et).z, so.At(seq, j))),
                                patterns=[so.At(new, j)]))
            self.set_list_seq(st, base, new)
            return
        raise CheckerError(f"{fr.qname}: subscript store on {base.t} not modelled {where}")

    def ex_AugAssign(self, s, st, fr):
        # evaluate target once (Python semantics for attribute/subscript targets)
        if isinstance(s.target, ast.Name):
            cur = self.ev(ast.Name(id=s.target.id, ctx=ast.Load()), st, fr)
            rhs = self.ev(s.value, st, fr)
            st.locals[s.target.id] = self.aug(s.op, cur, rhs, st, fr, s)
            if fr.contract is not None and s.target.id in fr.contract.locals:
                st.locals[s.target.id] = self.coerce(st.locals[s.target.id], fr.contract.locals[s.target.id])
        elif isinstance(s.target, ast.Attribute):
            base = self.ev(s.target.value, st, fr)
            cur = self.getattr(base, s.target.attr, st, fr, s)
            rhs = self.ev(s.value, st, fr)
            new = self.aug(s.op, cur, rhs, st, fr, s)
            if base.t.kind == "classref":
                r = self.spec.field(base.py, s.target.attr, self.prog.mro(base.py))
                self.hset(st, ("glob", base.py, s.target.attr, r[1]), self.coerce(new, r[1]).z)
            else:
                self.set_field(st, base, s.target.attr, new)
        elif isinstance(s.target, ast.Subscript):
            base = self.ev(s.target.value, st, fr)
            idx = self.ev(s.target.slice, st, fr)
            cur = self.subscript(base, idx, st, fr, f"L{s.lineno}")
            rhs = self.ev(s.value, st, fr)
            self.store_subscript(base, idx, self.aug(s.op, cur, rhs, st, fr, s), st, fr, f"L{s.lineno}")
        else:
            raise CheckerError("augassign target")
        return [Outcome("ok", st)]

    def aug(self, op, cur: V, rhs: V, st, fr, node):
        if cur.t.kind == "list" and isinstance(op, ast.Add):
            seq, et = self.as_seq(rhs, st)
            self.set_list_seq(st, cur, seq_ops(et).Cat(self.list_seq(st, cur), seq))
            return cur
        return self.binop(op, cur, rhs, st, fr, node)

    def ex_Return(self, s, st, fr):
        # empty list literals in a returned tuple take their element type from the contract's return type
        rt = fr.contract.returns if fr.contract is not None else None
        if rt is not None and isinstance(s.value, ast.Tuple) and rt.kind == "tuple":
            for e, t in zip(s.value.elts, rt.args):
                if isinstance(e, ast.List) and not e.elts and t.kind == "list":
                    e._elem_t = t.args[0]
        if rt is not None and isinstance(s.value, ast.List) and not s.value.elts and rt.kind == "list":
            s.value._elem_t = rt.args[0]
        val = self.ev(s.value, st, fr) if s.value is not None else V(NONE, ty.null)
        return [Outcome("ret", st, val)]

    def ex_Raise(self, s, st, fr):
        exc = "Exception"
        if s.exc is not None:
            e = s.exc
            if isinstance(e, ast.Call):
                e = e.func
            if isinstance(e, ast.Name):
                exc = e.id
            elif isinstance(e, ast.Attribute):
                exc = e.attr
        else:
            exc = getattr(fr, "_cur_exc", "Exception")
        return [Outcome("raise", st, None, exc, f"L{s.lineno}")]

    def ex_Assert(self, s, st, fr):
        c = self.truthy(self.ev(s.test, st, fr), st, fr)
        self.dropped.add("assert messages (f-strings) are not evaluated")
        outs = []
        es = st.copy()
        es.assume(z3.Not(c), True)
        outs.append(Outcome("raise", es, None, "AssertionError", f"L{s.lineno}"))
        st.assume(c, True)
        outs.append(Outcome("ok", st))
        return outs

    def ex_Break(self, s, st, fr):
        return [Outcome("break", st)]

    def ex_Continue(self, s, st, fr):
        return [Outcome("cont", st)]

    def ex_Delete(self, s, st, fr):
        for tg in s.targets:
            if isinstance(tg, ast.Subscript):
                base = self.ev(tg.value, st, fr)
                idx = self.ev(tg.slice, st, fr)
                if base.t.kind != "dict":
                    raise CheckerError("del on non-dict")
                kt, vt = base.t.args[:2]
                so = seq_ops(kt)
                keys = self.dict_keys(st, base)
                kz = self.coerce(idx, kt).z
                self.raise_edge(fr, st, z3.Not(so.Mem(keys, kz)), "KeyError", f"L{s.lineno}")
                self.set_dict(st, base, so.Rem(keys, kz), None)
            else:
                raise CheckerError("del target form")
        return [Outcome("ok", st)]

    def ex_If(self, s, st, fr):
        c = self.truthy(self.ev(s.test, st, fr), st, fr)
        c = z3.simplify(c)
        if z3.is_true(c):
            return self.ex_block(s.body, st, fr)
        if z3.is_false(c):
            return self.ex_block(s.orelse, st, fr) if s.orelse else [Outcome("ok", st)]
        # branches refuted by the plain path condition are not explored (sound: only provably dead code is skipped)
        if self.quick_infeasible(st, c):
            st.assume(z3.Not(c))
            return self.ex_block(s.orelse, st, fr) if s.orelse else [Outcome("ok", st)]
        if self.quick_infeasible(st, z3.Not(c)):
            st.assume(c)
            return self.ex_block(s.body, st, fr)
        a = st.copy(); a.assume(c, True)
        b = st; b.assume(z3.Not(c), True)
        outs = self.ex_block(s.body, a, fr)
        outs += self.ex_block(s.orelse, b, fr) if s.orelse else [Outcome("ok", b)]
        return outs

    def ex_With(self, s, st, fr):
        raise CheckerError(f"{fr.qname}: with-statement not modelled (line {s.lineno})")

    def ex_Try(self, s, st, fr):
        if s.finalbody:
            raise CheckerError("try/finally not modelled")
        outs = []
        body_outs = self.ex_block(s.body, st, fr)
        for o in body_outs:
            if o.kind != "raise":
                if o.kind == "ok" and s.orelse:
                    outs.extend(self.ex_block(s.orelse, o.st, fr))
                else:
                    outs.append(o)
                continue
            handled = False
            for h in s.handlers:
                hname = None
                if h.type is not None:
                    hname = h.type.id if isinstance(h.type, ast.Name) else getattr(h.type, "attr", None)
                if exc_matches(o.exc, hname):
                    handled = True
                    prev = getattr(fr, "_cur_exc", None)
                    fr._cur_exc = o.exc
                    if h.name:
                        o.st.locals[h.name] = V(ty.Ref("Exception"), fresh("exc", ty.RefSort))
                    outs.extend(self.ex_block(h.body, o.st, fr))
                    fr._cur_exc = prev
                    break
            if not handled:
                outs.append(o)
        return outs

    def ex_Import(self, s, st, fr):
        return [Outcome("ok", st)]

    ex_ImportFrom = ex_Import

    # ---- loops --------------------------------------------------------------------------
    def ex_For(self, s, st, fr):
        from .loops import exec_for
        return exec_for(self, s, st, fr)

    def ex_While(self, s, st, fr):
        from .loops import exec_while
        return exec_while(self, s, st, fr)

    # ================================================================== merging
    def merge_states(self, states: list[State]) -> State:
        """Merge sibling states by if-then-else on their path-condition suffixes."""
        if len(states) == 1:
            return states[0]
        # common pc prefix (by identity)
        n = min(len(s.pc) for s in states)
        k = 0
        while k < n and all(s.pc[k] is states[0].pc[k] for s in states):
            k += 1
        # guards are the branch decisions taken since the common prefix; facts assumed on a branch stay available
        # as implications under that branch's guard
        guards, facts = [], []
        for s in states:
            dec = [x for x in s.pc[k:] if id(x) in s.decisions]
            g = z3.And(*dec) if dec else z3.BoolVal(True)
            guards.append(g)
            for x in s.pc[k:]:
                if id(x) not in s.decisions:
                    facts.append(x if z3.is_true(g) else z3.Implies(g, x))
        for i in range(len(guards)):
            for j in range(i + 1, len(guards)):
                if guards[i].eq(guards[j]):
                    raise CheckerError("state merge: two paths are not separated by a branch decision (would be unsound to merge)")
        m = State()
        m.pc = list(states[0].pc[:k]) + [z3.Or(*guards)] + facts
        for s in states:
            m.decisions |= {d for d in s.decisions if any(id(x) == d for x in states[0].pc[:k])}
        names = set()
        for s in states:
            names |= set(s.locals)
        for nme in names:
            if not all(nme in s.locals for s in states):
                # defined on some paths only: keep where defined (use on other paths would be a NameError in Python)
                vals = [(g, s.locals[nme]) for g, s in zip(guards, states) if nme in s.locals]
            else:
                vals = [(g, s.locals[nme]) for g, s in zip(guards, states)]
            res = vals[-1][1]
            ok = True
            for g, v in reversed(vals[:-1]):
                if res.z is None or v.z is None:
                    if res is not v and not (res.t == v.t and res.py is v.py):
                        ok = False
                        break
                    continue
                try:
                    res = self.ite(g, v, res)
                except CheckerError:
                    ok = False
                    break
            if ok:
                m.locals[nme] = res
        def merge_heaps(sts, into):
            keys = set()
            for s in sts:
                keys |= set(s.heap)
            for key in keys:
                arrs = [self.h(s, key) for s in sts]
                res = arrs[-1]
                for g, a in reversed(list(zip(guards[:-1], arrs[:-1]))):
                    res = a if a is res or a.eq(res) else z3.If(g, a, res)
                into.heap[key] = res
        merge_heaps(states, m)
        for s in states:
            for k, v in s.writes.items():
                if v is None:
                    m.writes[k] = None
                elif m.writes.get(k, []) is not None:
                    m.writes.setdefault(k, []).extend(v)
        rs = [s.resume for s in states]
        if any(r is not None for r in rs):
            if all(r is rs[0] for r in rs):
                m.resume = rs[0]
            else:
                if any(r is None for r in rs):
                    raise CheckerError("merge of generator paths with and without a resumption snapshot")
                mr = State()
                mr.locals = dict(rs[0].locals)
                mr.pc = m.pc
                merge_heaps(rs, mr)
                m.resume = mr
        return m

    # ================================================================== spec evaluation
    def sev(self, src: str, st: State, fr: Frame, binds: dict | None = None) -> V:
        sub = Frame(fr.qname, fr.module, fr.cls, fr.contract, fr.fn, old=fr.old, spec=True,
                    binds=dict(binds or {}), entry_locals=fr.entry_locals, depth=fr.depth,
                    loop_entry=fr.loop_entry)
        sub.modsets = fr.modsets
        node = parse_expr(src)
        st2 = st.copy()   # spec evaluation never changes the program state
        v = self.ev(node, st2, sub)
        # facts created while evaluating (definitions of comprehension results) are definitional: keep them
        extra = st2.pc[len(st.pc):]
        st.pc.extend(extra)
        return v

    def sev_bool(self, src: str, st: State, fr: Frame, binds=None):
        v = self.sev(src, st, fr, binds)
        return self.truthy(v, st, fr)


def split_goal(goal, depth=0):
    """A /\\ B  and  forall x. G => (A /\\ B)  are proved conjunct by conjunct (smaller queries, same meaning)."""
    if depth > 3:
        return [goal]
    if z3.is_and(goal):
        out = []
        for c in goal.children():
            out.extend(split_goal(c, depth + 1))
        return out
    if z3.is_quantifier(goal) and goal.is_forall() and goal.num_patterns() == 0:
        body = goal.body()
        guard = None
        if z3.is_implies(body):
            guard, body = body.arg(0), body.arg(1)
        if z3.is_and(body) and body.num_args() > 1:
            names = [goal.var_name(i) for i in range(goal.num_vars())]
            sorts = [goal.var_sort(i) for i in range(goal.num_vars())]
            consts = [z3.Const(f"{n}!sp{next(_fresh)}", srt) for n, srt in zip(names, sorts)]
            out = []
            for c in body.children():
                inst = z3.substitute_vars(c if guard is None else z3.Implies(guard, c), *reversed(consts))
                for piece in split_goal(QForAll(consts, inst), depth + 1):
                    out.append(piece)
            return out
    return [goal]


def short(qname: str) -> str:
    mod, _, name = qname.partition(":")
    mod = mod.split("#")[0]
    return mod.split(".")[-1] + ":" + name

"""Sidecar contract language: class schemas, function contracts, loop specs, predicates.

Contracts are attached to the *real* functions by qualified name; expression strings are
ordinary Python expressions parsed with `ast` and evaluated by the same symbolic evaluator
that executes the code (engine.Engine.sev)."""
from __future__ import annotations
import ast
from dataclasses import dataclass, field
from . import ty


@dataclass
class LoopSpec:
    idx: str | None = None            # ghost name of the loop position (number of completed iterations)
    inv: list[str] = field(default_factory=list)
    decreases: str | None = None
    header: str | None = None         # expected source text of the loop header (attachment pin)
    unfold: list[str] = field(default_factory=list)   # sequences whose visited prefix is unfolded each iteration: Take(s,k+1)=Take(s,k)++[s[k]]
    cut: list[str] | None = None      # summarise-and-forget point just before the loop: assert these, forget the rest


@dataclass
class FnContract:
    qname: str
    params: dict[str, ty.T] = field(default_factory=dict)
    returns: ty.T | None = None
    requires: list[str] = field(default_factory=list)
    ensures: list[str] = field(default_factory=list)
    raises: dict[str, list[str]] = field(default_factory=dict)
    modifies: list[str] = field(default_factory=list)
    loops: dict[int, LoopSpec] = field(default_factory=dict)
    locals: dict[str, ty.T] = field(default_factory=dict)
    allocates: bool = False           # may allocate objects (havocs the allocation map for callers)
    covers: dict[str, str] = field(default_factory=dict)   # label -> spec expr over entry state that must be satisfiable
    ensures_labels: list[str] = field(default_factory=list)
    trusted: bool = False             # assumed contract (external / not verified here)
    note: str = ""
    yields: dict[int, list[str]] = field(default_factory=dict)  # generator cut points
    ghost_post: list[str] = field(default_factory=list)
    gen: dict | None = None           # generator (coroutine) verification spec
    monitor_only: bool = False         # no VCs are generated: the clauses are evaluated only by the run-time monitors (bounded)
    exists_mem_patterns: bool = False  # any(... for x in seq) in this contract is instantiated on members of seq only
    default_reads: bool = False        # d[k] on a defaultdict inside this contract's specifications means d.get(k, 0)
    nl: str = "uf"                     # "native": products/quotients of symbols are interpreted (small arithmetic-only functions)
    native_ensures: list = field(default_factory=list)   # (label, expr) clauses only evaluated by the run-time monitors (bounded), never counted as proved
    variants: dict = field(default_factory=dict)   # callee qname -> contract variant key ("<qname>#<variant>") to use in this proof
    weak_calls: list[str] = field(default_factory=list)  # callees replaced by 'may do anything' (havoc-all) in this proof
    owners: list[str] = field(default_factory=list)   # properties whose proof this function's unlabelled obligations support

    def label(self, i: int) -> str:
        if i < len(self.ensures_labels) and self.ensures_labels[i]:
            return self.ensures_labels[i]
        return str(i)


@dataclass
class Pred:
    name: str
    params: list[tuple[str, ty.T]]
    body: str
    _ast: ast.AST | None = None


class Spec:
    def __init__(self):
        self.classes: dict[str, dict] = {}     # cls -> {"fields": {name: (T, imm)}, "base": None}
        self.fns: dict[str, FnContract] = {}
        self.preds: dict[str, Pred] = {}
        self.measures: dict[str, tuple] = {}   # name -> (cls, var, expr, T)
        self.measure_params: dict[str, tuple] = {}   # name -> (param name, param type) for indexed families
        self.externals: dict[str, FnContract] = {}
        self.lemmas: list[tuple[str, list, str, str]] = []
        self.const_modules: list[str] = ["eudoxia.workload.runtime_status", "eudoxia.utils", "eudoxia.utils.consts"]

    # ---- declarations ----------------------------------------------------------------
    def cls(self, name: str, fields: dict[str, ty.T], immutable: tuple[str, ...] | list[str] = (), owned=()):
        d = self.classes.setdefault(name, {"fields": {}, "owned": set()})
        d.setdefault("owned", set()).update(owned)
        for f in owned:
            assert f in immutable, f"owned field {name}.{f} must be immutable"
        for f, t in fields.items():
            d["fields"][f] = (t, f in immutable)

    def fn(self, qname: str, **kw) -> FnContract:
        loops = {}
        for k, v in (kw.pop("loops", {}) or {}).items():
            loops[k] = v if isinstance(v, LoopSpec) else LoopSpec(**v)
        ens = kw.pop("ensures", [])
        labels, exprs = [], []
        for e in ens:
            if isinstance(e, tuple):
                labels.append(e[0]); exprs.append(e[1])
            else:
                labels.append(""); exprs.append(e)
        c = FnContract(qname=qname, loops=loops, ensures=exprs, ensures_labels=labels, **kw)
        self.fns[qname] = c
        return c

    def pred(self, name: str, params: list[tuple[str, ty.T]], body: str):
        if name in self.preds and self.preds[name].body != body:
            raise ValueError(f"specification predicate {name} is defined twice with different bodies")
        self.preds[name] = Pred(name, params, body)

    def measure(self, name: str, cls: str, var: str, expr: str, t: ty.T = ty.REAL, param=None):
        """A named element->value map over immutable fields, usable as Sum(seq, name).
        param=(pname, ptype): a family of such maps indexed by one value, used as Sum(seq, name, value)."""
        self.measures[name] = (cls, var, expr, t)
        if param is not None:
            self.measure_params[name] = param

    def field(self, cls: str, name: str, mro: list[str]):
        for c in mro:
            if c in self.classes and name in self.classes[c]["fields"]:
                t, imm = self.classes[c]["fields"][name]
                return c, t, imm
        return None

    def merge(self, other: "Spec"):
        for k, v in other.classes.items():
            self.classes.setdefault(k, {"fields": {}})["fields"].update(v["fields"])
        self.fns.update(other.fns)
        self.preds.update(other.preds)
        self.measures.update(other.measures)
        self.measure_params.update(other.measure_params)
        self.lemmas.extend(other.lemmas)


_TAG = __import__("re").compile(r"^\s*((?:C[0-9]{2,3})(?:,C[0-9]{2,3})*)\|\s*(.*)$", __import__("re").S)


def split_tags(clause: str):
    """'C03,C04| expr' -> (('C03','C04'), 'expr');  'expr' -> (None, 'expr')"""
    m = _TAG.match(clause)
    if not m:
        return None, clause
    return tuple(m.group(1).split(",")), m.group(2)


_parse_cache: dict[str, ast.AST] = {}


def parse_expr(src: str) -> ast.AST:
    if src not in _parse_cache:
        _tags, body = split_tags(src)
        _parse_cache[src] = ast.parse(body.strip(), mode="eval").body
    return _parse_cache[src]

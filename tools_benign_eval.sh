#!/bin/bash
# usage: tools_benign_eval.sh <batch dir with change_i.diff> <prop> [<prop>...] : apply each behaviour-preserving change to /repo, run the checks, undo it.
# A VIOLATION here is a false alarm of the machinery (the property still holds).
d="$1"; shift
cd /verif
EVBAK=$(mktemp -d); cp -r /verif/evidence/. $EVBAK/   # evidence files describe the unchanged tree: runs on patched trees must not replace them
trap 'cp -r $EVBAK/. /verif/evidence/; rm -rf $EVBAK' EXIT
[ -n "$(git -C /repo status --short)" ] && { echo "/repo not clean"; exit 9; }
for f in $(ls $d/change_*.diff | sort -V); do
  git -C /repo apply "$f" || { echo -e "$(basename $f)\tAPPLY-FAILED"; continue; }
  for p in "$@"; do
    out=$(./check $p --tier quick 2>&1); rc=$?
    echo -e "$(basename $(dirname $f))/$(basename $f)\t$p\trc=$rc\t$(echo "$out" | grep -E "VIOLATION|BOUNDED-ONLY|CHECKER-ERROR" | head -1 | sed -E 's/replay=[^ ]+//; s/details=[^ ]+//' | cut -c1-120)\t$(echo "$out" | grep -E "^  FAILED" | sed -E 's/^  FAILED ([^ ]+) \[([a-z]+)\].*/\1[\2]/' | head -3 | tr '\n' ' ')"
  done
  git -C /repo checkout -- .
done

"""Property table and the generic check driver (used by ./check)."""
from __future__ import annotations
import json
import os
import sys
import time

HERE = os.path.dirname(os.path.abspath(__file__))
REPO = os.environ.get("VERIF_REPO", "/repo")

from pyvc import cli, scan  # noqa: E402
from pyvc.program import Program  # noqa: E402

TRUSTED_BASE = [
    "pyvc VC generator and its encoding of Python semantics (DESIGN.md 2.3); guarded by seeded mutants and the CPython monitor run",
    "z3 4.x/5.x SMT solver (E-matching only for proofs), cvc5 as second back end",
    "sequence / sum / histogram prelude axioms (pyvc/prelude.py), validated by exhaustive interpretation over small sequences (thorough tier)",
    "A-REAL: Python floats are treated as mathematical reals (except where the float-faithful layer is named)",
    "A-ASSERT: the interpreter is not run with -O (assert statements execute)",
    "ownership-by-construction of container-valued fields marked `owned` (scan-checked)",
]


# the lifecycle of an operator as the statement of C02 gives it (PENDING -> ASSIGNED -> RUNNING -> COMPLETED, FAILED from ASSIGNED or
# RUNNING and retryable back to ASSIGNED, SUSPENDING from ASSIGNED and back to PENDING, nothing else).  The contracts read the table from
# the source, so the table itself is pinned here: a changed table is a failed obligation, not a silently different specification.
LIFECYCLE = {"PENDING": {"ASSIGNED"}, "ASSIGNED": {"RUNNING", "SUSPENDING", "FAILED"}, "RUNNING": {"COMPLETED", "FAILED"},
             "SUSPENDING": {"PENDING"}, "COMPLETED": set(), "FAILED": {"ASSIGNED"}}


def _native_tables():
    """VALID_TRANSITIONS and ASSIGNABLE_STATES as the real module computes them (child process, so nothing leaks into the checker)"""
    import subprocess
    code = ("import json, logging; logging.disable(logging.CRITICAL)\n"
            "import eudoxia.workload.runtime_status as m\n"
            "print('TABLES ' + json.dumps({'vt': {k.name: sorted(x.name for x in v) for k, v in m.VALID_TRANSITIONS.items()},"
            " 'as': sorted(x.name for x in m.ASSIGNABLE_STATES)}))")
    try:
        pr = subprocess.run([sys.executable, "-c", code], capture_output=True, text=True, timeout=120, env=dict(os.environ, PYTHONPATH=REPO))
        line = [l for l in pr.stdout.splitlines() if l.startswith("TABLES ")]
        return json.loads(line[-1][7:]) if line else None
    except Exception:
        return None


def scan_lifecycle_table(prog, tags):
    import ast
    got, why, assignable = None, "", None
    nat = _native_tables()
    if nat is not None:
        got = {k: set(v) for k, v in nat["vt"].items()}
        assignable = set(nat["as"])
    else:
        node = prog.const_nodes.get("eudoxia.workload.runtime_status:VALID_TRANSITIONS")
        try:
            if isinstance(node, ast.Dict):
                got = {k.attr: {e.attr for e in v.elts} for k, v in zip(node.keys, node.values)}
            else:
                why = "VALID_TRANSITIONS is no longer a dictionary literal and the module cannot be imported"
        except Exception as e:
            why = f"VALID_TRANSITIONS cannot be read: {e}"
    ok = got == LIFECYCLE and (assignable is None or assignable == {"PENDING", "FAILED"})
    if got == LIFECYCLE and not ok:
        why = f"ASSIGNABLE_STATES is {sorted(assignable)}; by the statement's lifecycle the states that can be assigned are FAILED and PENDING"
    if got is not None and got != LIFECYCLE:
        extra = sorted(f"{a}->{b}" for a, bs in got.items() for b in bs if b not in LIFECYCLE.get(a, set()))
        missing = sorted(f"{a}->{b}" for a, bs in LIFECYCLE.items() for b in bs if b not in got.get(a, set()))
        why = f"edges not in the statement: {extra}; edges of the statement missing: {missing}"
    return scan.ScanResult("scan:lifecycle-table", ok, why if not ok else "VALID_TRANSITIONS is exactly the lifecycle of the statement", tags)


def scan_constant(prog, key, want, why, tags):
    """a number the property statement fixes and the contracts read from the source"""
    got = prog.consts.get(key, "<not a literal>")
    return scan.ScanResult(f"scan:constant:{key.split(':')[1]}", got == want,
                           f"{key} = {got!r} as the statement says ({why})" if got == want else f"{key} is {got!r}, the statement says {want!r} ({why})", tags)


def _scan_disk(prog, S, tags):
    return [scan_constant(prog, "eudoxia.utils.consts:DISK_SCAN_GB_SEC", 20, "20 GB per simulated second of I/O / write-out", tags)]


def _scans_state_writers(prog, S, tags):
    return [
        scan_lifecycle_table(prog, tags),
        scan.scan_writers(prog, "state-writers", {"operator_states", "state_counts"},
                          {"PipelineRuntimeStatus.__init__", "PipelineRuntimeStatus.transition"}, tags),
        scan.scan_transitions(prog, {
            "ASSIGNED": {"Assignment.__init__"}, "RUNNING": {"Container._tick_generator"},
            "COMPLETED": {"Container._complete_operator"}, "FAILED": {"Container.kill"},
            "SUSPENDING": {"Container.suspend_container"}, "PENDING": {"Container.suspend_container_tick"},
            "?": {"Operator.transition"}}, tags),
        scan.scan_immutables(prog, S, tags),
        scan.scan_no_eq_hash(prog, tags),
        scan.scan_writers(prog, "node-graph-writers", {"children", "parents", "roots", "node_ids", "node_lookup"},
                          {"Node.__init__", "DAG.__init__", "DAG.add_node"}, tags),
    ]


def _scans_pool_writers(prog, S, tags):
    return [
        scan.scan_writers(prog, "pool-accounting-writers",
                          {"avail_cpu_pool", "avail_ram_pool", "active_containers", "suspending_containers", "suspended_containers"},
                          {"ResourcePool.__init__", "ResourcePool.run_one_tick"}, tags),
        scan.scan_writers(prog, "usage-writers", {"consumed_ram_gb", "_current_memory"},
                          {"ResourcePool.__init__", "ResourcePool._reconcile_consumed_ram", "Container.__init__",
                           "Container.set_current_memory_usage"}, tags),
        scan.scan_immutables(prog, S, tags),
    ]


def _scan_suspend(prog, S, tags):
    return [scan.scan_constructions(prog, "Suspend", {"eudoxia.scheduler.priority", "eudoxia.scheduler.rest"}, tags)]


def _extra_c01(prog, S, tier, seed):
    import extras
    return [extras.run_child("dag_iteration_exhaustive", REPO, 6)]


PROPS = {
    "C01": dict(scans=_scans_state_writers, extra=_extra_c01),
    "C02": dict(scans=_scans_state_writers),
    "C03": dict(scans=_scans_pool_writers),
    "C04": dict(scans=_scans_pool_writers),
    "C05": dict(scans=lambda p, s, t: [scan.scan_immutables(p, s, t)] + _scan_disk(p, s, t)),
    "C09": dict(scans=lambda p, s, t: [scan.scan_immutables(p, s, t)], native_budget=20),
    "C10": dict(scans=lambda p, s, t: _scans_state_writers(p, s, t) + _scan_disk(p, s, t)),
    "C11": dict(scans=lambda p, s, t: [scan.scan_immutables(p, s, t)]),
    "C13": dict(level="other", extra=lambda prog, S, tier, seed: [__import__("extras").run_child("trace_float_grid", REPO, 20000 if tier == "quick" else 100000),
                                                    __import__("extras").run_child("trace_replay_random", REPO, seed, 300 if tier == "quick" else 3000),
                                                    __import__("extras").run_child("gentrace_roundtrip", REPO, seed, 40 if tier == "quick" else 600)]),
    "C19": dict(level="other", scans=_scan_suspend,
                extra=lambda prog, S, tier, seed: [__import__("extras").run_children("rest_bridge", REPO, seed, 48 if tier == "quick" else 960, procs=12)]),
    "C20": dict(level="other", extra=lambda prog, S, tier, seed: [__import__("extras").run_child("snap_float_grid", REPO, 20000 if tier == "quick" else 200000),
                                                    __import__("extras").run_child("tools_files", REPO, seed, 30 if tier == "quick" else 400),
                                                    __import__("extras").run_child("sensitivity_seed", REPO)]),
    "C06": dict(level="other", scans=lambda p, s, t: [scan.scan_writers(p, "arrival-finish-writers", {"arrival_tick", "finish_tick"},
                                                                         {"PipelineRuntimeStatus.__init__", "PipelineRuntimeStatus.record_arrival",
                                                                          "PipelineRuntimeStatus.record_finish"}, t)],
                extra=lambda prog, S, tier, seed: [__import__("extras").run_child("sim_recount", REPO, seed, 60 if tier == "quick" else 600),
                                                    __import__("extras").run_child("sim_uncontended", REPO, seed, 80 if tier == "quick" else 800)]),
    "C14": dict(level="other", extra=lambda prog, S, tier, seed: [__import__("extras").run_child("csv_roundtrip", REPO, seed, 150 if tier == "quick" else 3000)]),
    "C15": dict(level="other", extra=lambda prog, S, tier, seed: [__import__("extras").run_child("generator_shape", REPO, seed, 40 if tier == "quick" else 600)]),
    "C08": dict(level="other", scans=_scan_suspend, native_budget=30,
                extra=lambda prog, S, tier, seed: [__import__("extras").run_children("config_sweep", REPO, seed, 96 if tier == "quick" else 600, procs=12, timeout=3000),
                                                    __import__("extras").run_child("get_pool_exhaustive", REPO)]),
    "C12": dict(level="other", scans=_scan_suspend, native_budget=45,
                extra=lambda prog, S, tier, seed: [__import__("extras").run_child("get_pool_exhaustive", REPO)]),
    "C16": dict(scans=_scan_suspend, native_budget=25),
    "C17": dict(scans=_scan_suspend),
    "C18": dict(scans=lambda p, s, t: _scan_suspend(p, s, t) + [scan_constant(p, "eudoxia.scheduler.overbook:MAX_FAILURES", 3,
                                                                                "a pipeline is abandoned once three of its containers have failed", t)],
                native_budget=25),
}


def load_known():
    p = os.path.join(HERE, "known_findings.json")
    if not os.path.exists(p):
        return {"known": [], "fixed": []}
    return json.load(open(p))


def replay_file(pid: str, path: str, tier: str) -> int:
    """Re-run what a replay file recorded against the current tree: the native witness (scenario, seed) under the contract
    monitors, the bounded parts that failed, and the functions whose obligations failed.  Exit 1 if anything reproduces."""
    import subprocess
    rec = json.load(open(path))
    reproduced = []
    wit = (rec.get("native_replay") or {}).get("witnesses") or []
    for w in wit[:2]:
        env = dict(os.environ, PYTHONPATH=os.pathsep.join([os.path.join(HERE, ".deps"), HERE]), VERIF_REPO=REPO)
        pr = subprocess.run([sys.executable, os.path.join(HERE, "native.py"), "--replay", w["scenario"], str(w["seed"])],
                            capture_output=True, text=True, env=env, timeout=600)
        hit = pr.returncode == 1 and w["obligation"] in pr.stdout
        print(f"replay: scenario={w['scenario']} seed={w['seed']} obligation={w['obligation']} -> {'VIOLATED on the real code' if hit else 'not reproduced'}")
        if hit:
            reproduced.append(w["obligation"])
    items = rec.get("failed_obligations") or []
    bounded = [it["obligation"] for it in items if it["obligation"].startswith("bounded:")]
    if bounded and PROPS[pid].get("extra"):
        prog = Program(REPO)
        seed = int(os.environ.get("VERIF_SEED", "0"))
        for e in PROPS[pid]["extra"](prog, cli.load_spec(), tier, seed):
            if e["name"] in bounded:
                print(f"replay: {e['name']} -> {'FAILS again: ' + str(e.get('kinds') or e.get('detail'))[:200] if not e['ok'] else 'passes now'}")
                if not e["ok"]:
                    reproduced.append(e["name"])
    fns = sorted({it["function"] for it in items if it.get("function")})
    if fns:
        prog = Program(REPO)
        try:
            cli.prepare_program(prog)
        except KeyError:
            pass
        S = cli.load_spec()
        recs = cli.verify_functions(prog, S, fns, 20000 if tier == "quick" else 60000, jobs=int(os.environ.get("VERIF_JOBS", "16")))
        want = {it["obligation"] for it in items}
        for q, r_ in recs.items():
            if r_.get("error"):
                print(f"replay: {q} cannot be verified on this tree ({r_['error'][:120]})")
                continue
            for r in r_["results"]:
                if r["name"] in want:
                    print(f"replay: obligation {r['name']} -> {r['status']}")
                    if r["status"] != "discharged":
                        reproduced.append(r["name"])
    print(f"REPLAY property={pid} file={path} reproduced={'yes' if reproduced else 'no'} ({len(reproduced)} item(s))")
    return 1 if reproduced else 0


def _extraction_note(prog, q):
    """for a function that is a mechanical extraction: the statements taken (verbatim, from the current source) and what was rewritten"""
    if q not in getattr(prog, "synthetic", ()):
        return {}
    import ast as _ast
    mod, name = q.split(":")
    taken = prog.sources.get(mod + "$" + name, "")
    fn = prog.funcs[q]
    ret = _ast.unparse(fn.body[-1]) if fn.body else ""
    return {"extracted": {"statements": taken[:3000], "parameters": [a.arg for a in fn.args.args], "appended": ret,
                          "rewritten": "statements are deep copies of the current AST; a loop-body extraction turns this loop's continue/break into "
                                       "return 'continue'/'break', returns the rebound locals named in `appended`, and turns `yield e` into "
                                       "<list parameter>.append(e); everything of the host function outside these statements is dropped"}}


def run(pid: str, tier: str, replay: str | None, t0: float) -> int:
    if pid not in PROPS:
        print(f"property {pid} has no check (see MANIFEST.json not_applicable)")
        return 3
    spec_tbl = PROPS[pid]
    if replay:
        return replay_file(pid, replay, tier)
    seed = int(os.environ.get("VERIF_SEED", "0"))
    timeout_ms = 20000 if tier == "quick" else 60000
    if tier == "thorough":
        os.environ["PYVC_NOCACHE"] = "1"
    prog = Program(REPO)
    extracted = {}
    try:
        extracted = cli.prepare_program(prog)
    except KeyError as e:
        print(f"NOTE: {e}")
    S = cli.load_spec()
    fns = cli.functions_for(S, pid)
    if not fns:
        print(f"CHECKER-ERROR property={pid}: no function is under contract for it")
        return 3
    recs = cli.verify_functions(prog, S, fns, timeout_ms, jobs=int(os.environ.get("VERIF_JOBS", "16")))
    # ---- collect obligations relevant to this property ------------------------------------------
    relevant, support = [], []
    for q, rec in recs.items():
        for r in rec["results"]:
            (relevant if pid in r["tags"] else support).append((q, r))
    scans = spec_tbl["scans"](prog, S, (pid,)) if spec_tbl.get("scans") else []
    # arithmetic lemmas (proved with interpreted nonlinear arithmetic, used as axioms over rmul/rdiv)
    from pyvc import arith
    lemma_res = arith.prove_all()
    extra_res = []
    if spec_tbl.get("extra"):
        extra_res = spec_tbl["extra"](prog, S, tier, seed)
    if tier == "thorough":
        # bounded validation of the verifier's own sequence prelude (about the checker, so a failure is a checker error)
        from pyvc import validate_prelude
        pv = validate_prelude.cached(os.path.join(HERE, ".cache"))
        if pv["failures"]:
            print(f"CHECKER-ERROR property={pid}: prelude axiom refuted by interpretation: {pv['failures'][0]}")
            return 3
        extra_res.append({"name": "bounded:prelude-validation", "ok": True, "bounded": pv["bound"], "cases": pv["instances"],
                          "detail": f"{pv['axioms']} prelude axioms and the filter-sum lemma interpreted over Python tuples; no instance false"})
    if spec_tbl.get("native_budget"):
        # bounded part run on every check: the real code under the contract monitors (incl. monitor-only clauses)
        import native
        w = native.search(pid, [], REPO, seed, budget_s=spec_tbl["native_budget"] * (1 if tier == "quick" else 8), procs=12)
        extra_res.append({"name": "bounded:native-monitors", "ok": not w.get("found"), "bounded": w.get("scope"),
                          "cases": w.get("scenario_runs"), "monitor_stats": w.get("monitor_stats"),
                          "detail": "contracts (and monitor-only clauses) evaluated on the real code over enumerated scenarios",
                          "witness": (w.get("witnesses") or [None])[0]})
    # ---- verdict ----------------------------------------------------------------------------------
    known = load_known()
    failing = [(q, r) for q, r in relevant if r["status"] != "discharged"]
    failing_support = [(q, r) for q, r in support if r["status"] != "discharged"]
    bad_scans = [s for s in scans if not s.ok]
    bad_lemmas = [(n, r) for n, r in lemma_res if r != "unsat"]
    bad_extra = []
    known_extra = []
    crashed_parts = [e for e in extra_res if e.get("crash")]
    if crashed_parts:
        # a bounded part that did not run to the end decides nothing (never reported as a violation)
        print(f"CHECKER-ERROR property={pid}: bounded part {crashed_parts[0]['name']} crashed: {crashed_parts[0].get('detail', '')[-300:]}")
        return 3
    for e in extra_res:
        if e["ok"]:
            continue
        ks = [k for k in known["known"] if k["property"] == pid and (k["obligation"] == e["name"] or e["name"] in k.get("also_obligations", []))]
        kinds = set(e.get("finding_kinds") or [])
        if ks and kinds and kinds <= set(ks[0].get("kinds", [])):
            known_extra.append((e, ks[0]))     # exactly the recorded finding, nothing else
        else:
            bad_extra.append(e)
    unreachable = [(q, rec["error"]) for q, rec in recs.items() if rec.get("error")]
    violations, knowns = [], []
    for q, r in failing:
        k = [k for k in known["known"] if k["property"] == pid and k["obligation"] == r["name"]]
        (knowns if k else violations).append((q, r, k[0] if k else None))
    # bounded / native parts are reported separately and never counted as discharged obligations
    n_obl = len(relevant) + len(scans) + len(lemma_res)
    n_dis = n_obl - len(failing) - len(bad_scans) - len(bad_lemmas)
    wall = time.time() - t0
    # ---- evidence ---------------------------------------------------------------------------------
    backends = {}
    solver_s = 0.0
    for q, r in relevant:
        for b in r["backends"]:
            backends[b] = backends.get(b, 0) + 1
        solver_s += r["solver_s"]
    samples = [{"obligation": r["name"], "clause": r["clause"][:300], "status": r["status"], "path_instances": r["instances"],
                "backends": r["backends"]} for q, r in relevant[:: max(1, len(relevant) // 12)]][:14]
    assumptions = set(TRUSTED_BASE)
    dropped, abstracted = set(), set()
    for rec in recs.values():
        assumptions.update(rec["assumptions"])
        dropped.update(rec["dropped"])
        abstracted.update(rec["abstracted"])
    for q in fns:
        for cq in recs[q]["contracts_used"]:
            c = S.fns.get(cq)
            if c is not None and c.trusted:
                assumptions.add(f"derived/assumed contract used at call sites: {cq} - {c.note}")
    ev = {
        "property_id": pid, "tier": tier, "seed": seed, "level": spec_tbl.get("level", "proof"),
        "coverage": {
            "obligations": n_obl, "discharged": n_dis,
            "checker_cmd": f"./check {pid} --tier {tier}",
            "trusted_base": sorted(TRUSTED_BASE),
            "functions_under_contract": [dict({"function": q, "source_sha256_16": recs[q]["source_sha"], "obligation_instances": recs[q]["instances"],
                                               "vcgen_s": recs[q]["vcgen_s"], "solve_s": recs[q]["solve_s"], "from_cache": recs[q]["cached"]},
                                              **_extraction_note(prog, q)) for q in fns],
            "obligations_by_backend": backends, "solver_time_s": round(solver_s, 2),
            "supporting_obligations_other_properties": {"total": len(support), "failing": [r["name"] for _q, r in failing_support]},
            "scans": [{"name": s.name, "ok": s.ok, "detail": s.detail[:400]} for s in scans],
            "arithmetic_lemmas": [{"name": n, "result": r} for n, r in lemma_res],
            "bounded_or_native_parts": extra_res,
            "samples": samples,
            "dropped_constructs": sorted(dropped), "abstracted_constructs": sorted(abstracted),
            "explanation": "every obligation listed is generated from the current source of /repo/eudoxia against the sidecar contracts "
                           "and discharged by the SMT back end named; see DESIGN.md",
        },
        "assumptions": sorted(assumptions),
        "wall_s": round(wall, 2),
        "violations": len(violations) + len(bad_scans) + len(bad_lemmas) + len(bad_extra),
    }
    os.makedirs(os.path.join(HERE, "evidence"), exist_ok=True)
    json.dump(ev, open(os.path.join(HERE, "evidence", f"{pid}.json"), "w"), indent=1)
    # ---- report -----------------------------------------------------------------------------------
    print(f"{pid} [{tier}] functions={len(fns)} obligations={n_obl} discharged={n_dis} support={len(support)} wall={wall:.1f}s")
    for q, r, k in knowns:
        print(f"KNOWN-FINDING: property={pid} {k['what']} (obligation {r['name']})")
    for e, k in known_extra:
        print(f"KNOWN-FINDING: property={pid} {k['what'][:300]} (obligation {e['name']}, kinds {e.get('finding_kinds')})")
    for q, r in failing_support:
        print(f"NOTE: supporting obligation of another property not discharged: {r['name']} [{r['status']}] tags={r['tags']}")
    rc = 0
    if unreachable and (violations or bad_scans or bad_lemmas or bad_extra):
        for q, err in unreachable:
            print(f"NOTE: {q} is outside the verifier's reach on this tree ({err[:200]}); its obligations are undecided")
    if unreachable and not (violations or bad_scans or bad_lemmas or bad_extra):
        # bounded stand-in: the real functions under the contract monitors over the enumerated scenarios
        for q, err in unreachable:
            print(f"NOTE: {q} is outside the verifier's reach on this tree ({err[:200]}); falling back to the bounded native check")
        import native
        if pid in native.PROP_SCENARIOS:
            w = native.search(pid, [], REPO, seed, budget_s=120 if tier == "quick" else 600)
        else:
            w = {"found": False, "scenario_runs": 0, "scope": "no monitor scenarios for this property: its bounded parts (above) are the stand-in"}
        os.makedirs(os.path.join(HERE, "replay"), exist_ok=True)
        rp = os.path.join(HERE, "replay", f"{pid}-{int(time.time())}.json")
        json.dump({"property": pid, "unverifiable_functions": unreachable, "native_replay": w,
                   "bounded": "bounded native stand-in (contract monitors on the real code), scope: " + str(w.get("scope"))}, open(rp, "w"), indent=1)
        ev["coverage"]["bounded_or_native_parts"] = [{"name": "native-monitor-standin", "scope": w.get("scope"), "runs": w.get("scenario_runs"),
                                                      "found": w.get("found")}]
        ev["level"] = "other"
        json.dump(ev, open(os.path.join(HERE, "evidence", f"{pid}.json"), "w"), indent=1)
        if w.get("found"):
            for x in w["witnesses"]:
                print(f"  FAILED {x['obligation']} on the real code: scenario={x['scenario']} seed={x['seed']} clause={x['clause'][:140]}")
            print(f"VIOLATION property={pid} replay={rp}")
            return 1
        # The brief's rule for a function that cannot be brought within the verifier's reach: a bounded check of it stands in,
        # labelled bounded and never counted as proved.  The property held on everything the stand-in explored, so the
        # check does not raise an alarm; the evidence says that the deductive part was undecided on this tree.
        print(f"BOUNDED-ONLY property={pid}: contract attachment lost for {[q for q, _ in unreachable]} (deductive part undecided on this tree); "
              f"the bounded stand-in ({w.get('scenario_runs')} monitor scenario runs"
              f"{', ' + str(len(extra_res)) + ' bounded part(s)' if extra_res else ''}) found no violation; details={rp}")
        return 0
    if violations or bad_scans or bad_lemmas or bad_extra:
        os.makedirs(os.path.join(HERE, "replay"), exist_ok=True)
        rp = os.path.join(HERE, "replay", f"{pid}-{int(time.time())}.json")
        items = []
        for q, r, _k in violations:
            items.append({"obligation": r["name"], "function": q, "clause": r["clause"], "status": r["status"],
                          "solver_output": r.get("reason", ""), "model": r.get("model", ""), "path_instances": r["instances"]})
        for s in bad_scans:
            items.append({"obligation": s.name, "status": "refuted", "solver_output": s.detail})
        for n, rr in bad_lemmas:
            items.append({"obligation": n, "status": "open", "solver_output": rr})
        for e in bad_extra:
            items.append({"obligation": e["name"], "status": "refuted", "witness": e.get("witness"), "solver_output": e.get("detail", "")})
        witness = None
        try:
            import native
            if pid in native.PROP_SCENARIOS:
                witness = native.search(pid, items, REPO, seed, budget_s=60 if tier == "quick" else 300)
            else:
                witness = {"found": False, "note": "no monitor scenarios for this property; witnesses come from its bounded parts"}
        except Exception as ex:  # pragma: no cover
            witness = {"found": False, "error": repr(ex)}
        found = bool(witness and witness.get("found")) or any(e.get("witness") for e in bad_extra) or bool(bad_scans)
        json.dump({"property": pid, "failed_obligations": items, "native_replay": witness,
                   "how_to_replay": f"./check {pid} --replay {rp}"}, open(rp, "w"), indent=1)
        for it in items:
            print(f"  FAILED {it['obligation']} [{it['status']}] {it.get('clause', '')[:160]}")
        print(f"VIOLATION property={pid} replay={rp}" + ("" if found else " no-failing-input-found"))
        rc = 1
    return rc

#!/bin/bash
# usage: tools_seed_eval.sh <diff> <prop> [<prop>...] : apply a seeded change to /repo, run the checks, undo it.
d="$1"; shift
cd /repo && git apply "$d" || { echo "APPLY-FAILED $d"; exit 9; }
for p in "$@"; do
  out=$(/verif/check $p --tier quick 2>&1); rc=$?
  echo "[$p rc=$rc] $(echo "$out" | grep -E "VIOLATION|UNDECIDED|CHECKER-ERROR" | head -2 | tr '\n' ' ')"
  echo "$out" | grep -E "^  FAILED" | head -4
done
cd /repo && git checkout -- . && git status --short | head -3

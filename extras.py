"""Bounded / native parts of checks, run on the REAL code in a child process.  Each is labelled `bounded`
in the evidence and never counted as proved."""
from __future__ import annotations
import itertools
import json
import logging
import os
import subprocess
import sys

HERE = os.path.dirname(os.path.abspath(__file__))


def run_child(name, repo, *args, timeout=600):
    cmd = [sys.executable, os.path.join(HERE, "extras_main.py"), name, repo] + [str(a) for a in args]
    try:
        p = subprocess.run(cmd, capture_output=True, text=True, timeout=timeout, env=dict(os.environ, PYTHONPATH=""))
        line = [l for l in p.stdout.splitlines() if l.startswith("RESULT ")]
        if line:
            return json.loads(line[-1][7:])
        return {"name": name, "ok": False, "detail": "child failed: " + (p.stderr or p.stdout)[-500:], "crash": True}
    except Exception as e:  # pragma: no cover
        return {"name": name, "ok": False, "detail": repr(e), "crash": True}


# ------------------------------------------------------------------------------------------------
def dag_iteration_exhaustive(repo, max_nodes=6):
    """C01(c): every DAG on up to `max_nodes` nodes (parents chosen among earlier nodes, every subset),
    built with the real Pipeline.new_operator and iterated with the real iterator."""
    sys.path.insert(0, repo)
    logging.disable(logging.CRITICAL)
    from eudoxia.workload.pipeline import Pipeline
    from eudoxia.utils import Priority
    count = 0
    for n in range(0, max_nodes + 1):
        slots = [list(itertools.chain.from_iterable(itertools.combinations(range(i), k) for k in range(i + 1))) for i in range(n)]
        for choice in itertools.product(*slots) if n else [()]:
            p = Pipeline("x", Priority.QUERY)
            ops = []
            for i in range(n):
                ops.append(p.new_operator([ops[j] for j in choice[i]] or None))
            seen = []
            for op in p.values:
                seen.append(op)
                if len(seen) > n:
                    break
            count += 1
            ok = len(seen) == n and len({id(o) for o in seen}) == n and all(any(o is s for s in seen) for o in ops)
            if ok:
                pos = {id(o): i for i, o in enumerate(seen)}
                ok = all(pos[id(par)] < pos[id(o)] for o in ops for par in o.parents)
            if not ok:
                return {"name": "bounded:dag-iteration-exhaustive", "ok": False, "bounded": f"all DAGs on <= {max_nodes} nodes",
                        "detail": "iteration does not visit every operator exactly once, parents first",
                        "witness": {"nodes": n, "parents_of_each_node": [list(c) for c in choice],
                                    "visited_indices": [next(i for i, o in enumerate(ops) if o is s) for s in seen[: n + 1]]}}
    return {"name": "bounded:dag-iteration-exhaustive", "ok": True, "bounded": f"all DAGs on <= {max_nodes} nodes", "cases": count,
            "detail": f"{count} DAGs enumerated exhaustively; each visited every operator exactly once, parents before children"}


CHILDREN = {"dag_iteration_exhaustive": dag_iteration_exhaustive}



# ------------------------------------------------------------------------------------------------
def trace_float_grid(repo, max_tick=20000):
    """C13 float clause, bounded: for on-grid arrivals a = t * (1/tps) (what gentrace writes) and a = t / tps,
    the real WorkloadTrace must deliver in tick t.  Deviations are classified; 'one tick late because
    (a / (1/tps)) rounds above t' is the recorded finding D4."""
    sys.path.insert(0, repo)
    logging.disable(logging.CRITICAL)
    from eudoxia.workload.workload import WorkloadTrace, PipelineArrival

    class R:
        def __init__(self, batches): self.b = batches
        def batch_by_arrival(self): return iter(self.b)

    kinds, first = {}, {}
    total = 0
    for tps in (1, 2, 3, 7, 10, 100, 1000, 100000):
        ticks = list(range(0, max_tick, 1 if tps <= 10 else 7))
        for mode in ("gentrace", "division"):
            arr = [(t * (1.0 / tps)) if mode == "gentrace" else (t / tps) for t in ticks]
            w = WorkloadTrace(R([[PipelineArrival(a, ("p", i))] for i, a in enumerate(arr)]), tps)
            got = {}
            for tick in range(ticks[-1] + 3):
                for p in w.run_one_tick():
                    got.setdefault(p[1], tick)
            for i, t in enumerate(ticks):
                total += 1
                d = got.get(i)
                if d == t:
                    continue
                if d is None:
                    k = "not-delivered"
                elif d < t:
                    k = "early"
                elif d == t + 1 and (arr[i] / (1.0 / tps)) > t:
                    k = "late-by-rounding"
                else:
                    k = "late"
                kinds[k] = kinds.get(k, 0) + 1
                first.setdefault(k, {"tick": t, "ticks_per_second": tps, "arrival": arr[i], "delivered_tick": d, "mode": mode})
    ok = not kinds
    return {"name": "bounded:trace-float-grid", "ok": ok, "bounded": f"on-grid arrivals, ticks < {max_tick}, 8 tick rates, both ways of writing t/tps",
            "cases": total, "kinds": kinds, "witness": first, "finding_kinds": sorted(kinds),
            "detail": "on-grid arrivals delivered in their own tick" if ok else f"deviations: {kinds}"}


def trace_replay_random(repo, seed=0, n=300):
    """C13 bounded: random trace files through the real csv reader and WorkloadTrace; each pipeline once, never early,
    at the first tick whose start (t / tps) is at or after its arrival, file order kept, late arrivals not delivered."""
    import io, random
    sys.path.insert(0, repo)
    logging.disable(logging.CRITICAL)
    from eudoxia.workload.csv_io import CSVWorkloadReader
    rng = random.Random(seed)
    hdr = "pipeline_id,arrival_seconds,priority,operator_id,parents,baseline_cpu_seconds,cpu_scaling,memory_gb,storage_read_gb\n"
    kinds, first, total = {}, {}, 0
    for case in range(n):
        tps = rng.choice([1, 2, 3, 10, 100, 1000])
        t, arrs = 0.0, []
        for i in range(rng.randint(1, 12)):
            step = rng.choice([0, 0, 1 / tps, 0.5 / tps, rng.random() * 3 / tps, rng.randint(1, 5) / tps, 0.1, 0.29])
            t = t + step
            arrs.append(t)
        rows = "".join(f"p{i},{a!r},QUERY,op1,,1,const,,1\n" for i, a in enumerate(arrs))
        w = CSVWorkloadReader(io.StringIO(hdr + rows)).get_workload(tps)
        horizon = int(arrs[-1] * tps) + 3 - rng.choice([0, 0, 2])
        got, order = {}, []
        for tick in range(max(horizon, 0)):
            for p in w.run_one_tick():
                if p.pipeline_id in got:
                    kinds["duplicate"] = kinds.get("duplicate", 0) + 1
                got[p.pipeline_id] = tick
                order.append(p.pipeline_id)
        for i, a in enumerate(arrs):
            total += 1
            want = next((tk for tk in range(horizon + 5) if a <= tk / tps), None)
            d = got.get(f"p{i}")
            k = None
            if want is not None and want < horizon:
                if d is None:
                    k = "not-delivered"
                elif d < want:
                    import math
                    k = "early-by-rounding" if (d == want - 1 and abs(a - d / tps) <= 4 * math.ulp(a)) else "early"
                elif d > want:
                    k = "late-by-rounding" if (d == want + 1 and (a / (1.0 / tps)) > want) else "late"
            elif d is not None and want is not None and d < want:
                k = "early"
            if k:
                kinds[k] = kinds.get(k, 0) + 1
                first.setdefault(k, {"arrival": a, "ticks_per_second": tps, "first_tick_at_or_after": want, "delivered_tick": d})
        if order != sorted(order, key=lambda s: int(s[1:])):
            kinds["file-order-changed"] = kinds.get("file-order-changed", 0) + 1
            first.setdefault("file-order-changed", {"order": order[:8]})
    ok = not kinds
    return {"name": "bounded:trace-replay-random", "ok": ok, "bounded": f"{n} random trace files, <= 12 pipelines, 6 tick rates", "cases": total,
            "kinds": kinds, "witness": first, "finding_kinds": sorted(kinds), "detail": "ok" if ok else f"deviations: {kinds}"}


CHILDREN.update({"trace_float_grid": trace_float_grid, "trace_replay_random": trace_replay_random})


# keep at the very end of the file
def _main():
    name, repo, rest = sys.argv[1], sys.argv[2], sys.argv[3:]
    res = CHILDREN[name](repo, *[int(x) if x.lstrip('-').isdigit() else x for x in rest])
    print('RESULT ' + json.dumps(res, default=str))

"""Bounded / native parts of checks, run on the REAL code in a child process.  Each is labelled `bounded`
in the evidence and never counted as proved."""
from __future__ import annotations
import itertools
import json
import logging
import os
import subprocess
import sys

HERE = os.path.dirname(os.path.abspath(__file__))


def run_child(name, repo, *args, timeout=600):
    cmd = [sys.executable, os.path.join(HERE, "extras.py"), name, repo] + [str(a) for a in args]
    try:
        p = subprocess.run(cmd, capture_output=True, text=True, timeout=timeout, env=dict(os.environ, PYTHONPATH=""))
        line = [l for l in p.stdout.splitlines() if l.startswith("RESULT ")]
        if line:
            return json.loads(line[-1][7:])
        return {"name": name, "ok": False, "detail": "child failed: " + (p.stderr or p.stdout)[-500:], "crash": True}
    except Exception as e:  # pragma: no cover
        return {"name": name, "ok": False, "detail": repr(e), "crash": True}


# ------------------------------------------------------------------------------------------------
def dag_iteration_exhaustive(repo, max_nodes=6):
    """C01(c): every DAG on up to `max_nodes` nodes (parents chosen among earlier nodes, every subset),
    built with the real Pipeline.new_operator and iterated with the real iterator."""
    sys.path.insert(0, repo)
    logging.disable(logging.CRITICAL)
    from eudoxia.workload.pipeline import Pipeline
    from eudoxia.utils import Priority
    count = 0
    for n in range(0, max_nodes + 1):
        slots = [list(itertools.chain.from_iterable(itertools.combinations(range(i), k) for k in range(i + 1))) for i in range(n)]
        for choice in itertools.product(*slots) if n else [()]:
            p = Pipeline("x", Priority.QUERY)
            ops = []
            for i in range(n):
                ops.append(p.new_operator([ops[j] for j in choice[i]] or None))
            seen = []
            for op in p.values:
                seen.append(op)
                if len(seen) > n:
                    break
            count += 1
            ok = len(seen) == n and len({id(o) for o in seen}) == n and all(any(o is s for s in seen) for o in ops)
            if ok:
                pos = {id(o): i for i, o in enumerate(seen)}
                ok = all(pos[id(par)] < pos[id(o)] for o in ops for par in o.parents)
            if not ok:
                return {"name": "bounded:dag-iteration-exhaustive", "ok": False, "bounded": f"all DAGs on <= {max_nodes} nodes",
                        "detail": "iteration does not visit every operator exactly once, parents first",
                        "witness": {"nodes": n, "parents_of_each_node": [list(c) for c in choice],
                                    "visited_indices": [next(i for i, o in enumerate(ops) if o is s) for s in seen[: n + 1]]}}
    return {"name": "bounded:dag-iteration-exhaustive", "ok": True, "bounded": f"all DAGs on <= {max_nodes} nodes", "cases": count,
            "detail": f"{count} DAGs enumerated exhaustively; each visited every operator exactly once, parents before children"}


CHILDREN = {"dag_iteration_exhaustive": dag_iteration_exhaustive}

if __name__ == "__main__":
    name, repo, rest = sys.argv[1], sys.argv[2], sys.argv[3:]
    res = CHILDREN[name](repo, *[int(x) if x.lstrip("-").isdigit() else x for x in rest])
    print("RESULT " + json.dumps(res))

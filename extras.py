"""Bounded / native parts of checks, run on the REAL code in a child process.  Each is labelled `bounded`
in the evidence and never counted as proved."""
from __future__ import annotations
import itertools
import json
import logging
import os
import subprocess
import sys

HERE = os.path.dirname(os.path.abspath(__file__))


def run_child(name, repo, *args, timeout=600):
    cmd = [sys.executable, os.path.join(HERE, "extras_main.py"), name, repo] + [str(a) for a in args]
    try:
        p = subprocess.run(cmd, capture_output=True, text=True, timeout=timeout, env=dict(os.environ, PYTHONPATH=""))
        line = [l for l in p.stdout.splitlines() if l.startswith("RESULT ")]
        if line:
            return json.loads(line[-1][7:])
        return {"name": name, "ok": False, "detail": "child failed: " + (p.stderr or p.stdout)[-500:], "crash": True}
    except Exception as e:  # pragma: no cover
        return {"name": name, "ok": False, "detail": repr(e), "crash": True}


def run_children(name, repo, seed, n, procs=8, timeout=900):
    """the same bounded check split over `procs` processes with different seeds; results merged"""
    import concurrent.futures as cf
    per = max(1, n // procs)
    with cf.ThreadPoolExecutor(max_workers=procs) as ex:
        outs = list(ex.map(lambda i: run_child(name, repo, seed * 1000 + i, per, timeout=timeout), range(procs)))
    crashed = [o for o in outs if o.get("crash")]
    if crashed:
        return crashed[0]
    merged = dict(outs[0])
    merged["ok"] = all(o["ok"] for o in outs)
    merged["cases"] = sum(o.get("cases", 0) for o in outs)
    kinds = {}
    for o in outs:
        for k, v in (o.get("kinds") or {}).items():
            kinds[k] = kinds.get(k, 0) + v
    merged["kinds"] = kinds
    merged["finding_kinds"] = sorted(kinds)
    merged["witness"] = [w for o in outs for w in (o.get("witness") or [])][:3]
    merged["bounded"] = f"{procs} x ({outs[0].get('bounded')})"
    merged["detail"] = outs[0].get("detail") if merged["ok"] else str(kinds)
    return merged


# ------------------------------------------------------------------------------------------------
def dag_iteration_exhaustive(repo, max_nodes=6):
    """C01(c): every DAG on up to `max_nodes` nodes (parents chosen among earlier nodes, every subset),
    built with the real Pipeline.new_operator and iterated with the real iterator."""
    sys.path.insert(0, repo)
    logging.disable(logging.CRITICAL)
    from eudoxia.workload.pipeline import Pipeline
    from eudoxia.utils import Priority
    count = 0
    for n in range(0, max_nodes + 1):
        slots = [list(itertools.chain.from_iterable(itertools.combinations(range(i), k) for k in range(i + 1))) for i in range(n)]
        for choice in itertools.product(*slots) if n else [()]:
            p = Pipeline("x", Priority.QUERY)
            ops = []
            for i in range(n):
                ops.append(p.new_operator([ops[j] for j in choice[i]] or None))
            seen = []
            for op in p.values:
                seen.append(op)
                if len(seen) > n:
                    break
            count += 1
            ok = len(seen) == n and len({id(o) for o in seen}) == n and all(any(o is s for s in seen) for o in ops)
            if ok:
                pos = {id(o): i for i, o in enumerate(seen)}
                ok = all(pos[id(par)] < pos[id(o)] for o in ops for par in o.parents)
            if not ok:
                return {"name": "bounded:dag-iteration-exhaustive", "ok": False, "bounded": f"all DAGs on <= {max_nodes} nodes",
                        "detail": "iteration does not visit every operator exactly once, parents first",
                        "witness": {"nodes": n, "parents_of_each_node": [list(c) for c in choice],
                                    "visited_indices": [next(i for i, o in enumerate(ops) if o is s) for s in seen[: n + 1]]}}
    return {"name": "bounded:dag-iteration-exhaustive", "ok": True, "bounded": f"all DAGs on <= {max_nodes} nodes", "cases": count,
            "detail": f"{count} DAGs enumerated exhaustively; each visited every operator exactly once, parents before children"}


CHILDREN = {"dag_iteration_exhaustive": dag_iteration_exhaustive}



# ------------------------------------------------------------------------------------------------
def trace_float_grid(repo, max_tick=20000):
    """C13 float clause, bounded: for on-grid arrivals a = t * (1/tps) (what gentrace writes) and a = t / tps,
    the real WorkloadTrace must deliver in tick t.  Deviations are classified; 'one tick late because
    (a / (1/tps)) rounds above t' is the recorded finding D4."""
    sys.path.insert(0, repo)
    logging.disable(logging.CRITICAL)
    from eudoxia.workload.workload import WorkloadTrace, PipelineArrival

    class R:
        def __init__(self, batches): self.b = batches
        def batch_by_arrival(self): return iter(self.b)

    kinds, first = {}, {}
    total = 0
    for tps in (1, 2, 3, 7, 10, 100, 1000, 100000):
        ticks = list(range(0, max_tick, 1 if tps <= 10 else 7))
        for mode in ("gentrace", "division"):
            arr = [(t * (1.0 / tps)) if mode == "gentrace" else (t / tps) for t in ticks]
            w = WorkloadTrace(R([[PipelineArrival(a, ("p", i))] for i, a in enumerate(arr)]), tps)
            got = {}
            for tick in range(ticks[-1] + 3):
                for p in w.run_one_tick():
                    got.setdefault(p[1], tick)
            for i, t in enumerate(ticks):
                total += 1
                d = got.get(i)
                if d == t:
                    continue
                if d is None:
                    k = "not-delivered"
                elif d < t:
                    k = "early"
                elif d == t + 1 and (arr[i] / (1.0 / tps)) > t:
                    k = "late-by-rounding"
                else:
                    k = "late"
                kinds[k] = kinds.get(k, 0) + 1
                first.setdefault(k, {"tick": t, "ticks_per_second": tps, "arrival": arr[i], "delivered_tick": d, "mode": mode})
    ok = not kinds
    return {"name": "bounded:trace-float-grid", "ok": ok, "bounded": f"on-grid arrivals, ticks < {max_tick}, 8 tick rates, both ways of writing t/tps",
            "cases": total, "kinds": kinds, "witness": first, "finding_kinds": sorted(kinds),
            "detail": "on-grid arrivals delivered in their own tick" if ok else f"deviations: {kinds}"}


def trace_replay_random(repo, seed=0, n=300):
    """C13 bounded: random trace files through the real csv reader and WorkloadTrace; each pipeline once, never early,
    at the first tick whose start (t / tps) is at or after its arrival, file order kept, late arrivals not delivered."""
    import io, random, math
    sys.path.insert(0, repo)
    logging.disable(logging.CRITICAL)
    from eudoxia.workload.csv_io import CSVWorkloadReader
    rng = random.Random(seed)
    hdr = "pipeline_id,arrival_seconds,priority,operator_id,parents,baseline_cpu_seconds,cpu_scaling,memory_gb,storage_read_gb\n"
    kinds, first, total = {}, {}, 0
    for case in range(n):
        tps = rng.choice([1, 2, 3, 10, 100, 1000])
        # a trace may start before time 0 (the reader accepts any float): such pipelines are due in tick 0
        t, arrs = (0.0 if rng.random() < 0.75 else -rng.choice([0.5 / tps, 1 / tps, 2.5 / tps, 7.0, 1e-9])), []
        for i in range(rng.randint(1, 12)):
            step = rng.choice([0, 0, 1 / tps, 0.5 / tps, rng.random() * 3 / tps, rng.randint(1, 5) / tps, 0.1, 0.29])
            t = t + step
            arrs.append(t)
            if rng.random() < 0.25:
                # two different arrivals less than a microsecond apart on opposite sides of a tick boundary
                k = math.floor(t * tps) + 1
                lo, hi = k / tps - rng.choice([4e-7, 1e-7, 3e-8]), k / tps + rng.choice([4e-7, 1e-7, 3e-8])
                if lo > t:
                    arrs.extend([lo, hi])
                    t = hi
        rows = "".join(f"p{i},{a!r},QUERY,op1,,1,const,,1\n" for i, a in enumerate(arrs))
        w = CSVWorkloadReader(io.StringIO(hdr + rows)).get_workload(tps)
        horizon = max(math.floor(arrs[-1] * tps), 0) + 3 - rng.choice([0, 0, 2])
        got, order = {}, []
        for tick in range(max(horizon, 0)):
            for p in w.run_one_tick():
                if p.pipeline_id in got:
                    kinds["duplicate"] = kinds.get("duplicate", 0) + 1
                got[p.pipeline_id] = tick
                order.append(p.pipeline_id)
        for i, a in enumerate(arrs):
            total += 1
            want = next((tk for tk in range(horizon + 5) if a <= tk / tps), None)
            d = got.get(f"p{i}")
            k = None
            if want is not None and want < horizon:
                if d is None:
                    # due in the last replayed tick but pushed one tick further by the rounding of a / (1/tps): the recorded finding
                    k = "late-by-rounding" if (want == horizon - 1 and (a / (1.0 / tps)) > want) else "not-delivered"
                elif d < want:
                    import math
                    k = "early-by-rounding" if (d == want - 1 and abs(a - d / tps) <= 4 * math.ulp(a)) else "early"
                elif d > want:
                    k = "late-by-rounding" if (d == want + 1 and (a / (1.0 / tps)) > want) else "late"
            elif d is not None and want is not None and d < want:
                import math
                # the true tick lies beyond the replayed horizon but the pipeline came out inside it: same classification as above
                k = "early-by-rounding" if (d == want - 1 and abs(a - d / tps) <= 4 * math.ulp(a)) else "early"
            if k:
                kinds[k] = kinds.get(k, 0) + 1
                first.setdefault(k, {"arrival": a, "ticks_per_second": tps, "first_tick_at_or_after": want, "delivered_tick": d})
        if order != sorted(order, key=lambda s: int(s[1:])):
            kinds["file-order-changed"] = kinds.get("file-order-changed", 0) + 1
            first.setdefault("file-order-changed", {"order": order[:8]})
    ok = not kinds
    return {"name": "bounded:trace-replay-random", "ok": ok, "bounded": f"{n} random trace files, <= 12 pipelines, 6 tick rates", "cases": total,
            "kinds": kinds, "witness": first, "finding_kinds": sorted(kinds), "detail": "ok" if ok else f"deviations: {kinds}"}


CHILDREN.update({"trace_float_grid": trace_float_grid, "trace_replay_random": trace_replay_random})


# keep at the very end of the file
def _main():
    name, repo, rest = sys.argv[1], sys.argv[2], sys.argv[3:]
    res = CHILDREN[name](repo, *[int(x) if x.lstrip('-').isdigit() else x for x in rest])
    print('RESULT ' + json.dumps(res, default=str))


# ------------------------------------------------------------------------------------------------
def _snap_stmts(repo):
    """the snapping statements of tools.snap_command, taken from the current source (same extraction as the contract)"""
    sys.path.insert(0, HERE)
    sys.path.insert(0, os.path.join(HERE, ".deps"))
    from pyvc.program import Program
    from contracts import tools as ctools
    prog = Program(repo)
    q, stmts = ctools.prepare(prog)
    return "\n".join(stmts)


def snap_float_grid(repo, max_tick=20000):
    """C20 (float clause, bounded): the real `snap` command on files holding on-grid values (k / tps), gentrace-style values
    (k * (1 / tps)) and random off-grid values, at 8 tick rates; the result is snapped once more to check idempotence."""
    import csv, io, math, random, tempfile, contextlib
    sys.path.insert(0, repo)
    logging.disable(logging.CRITICAL)
    from eudoxia import tools
    kinds, first, total = {}, {}, 0
    rng = random.Random(1)
    hdr = ["pipeline_id", "arrival_seconds", "priority", "operator_id", "parents", "baseline_cpu_seconds", "cpu_scaling", "memory_gb", "storage_read_gb"]
    with tempfile.TemporaryDirectory() as d:
        for tps in (1, 2, 3, 7, 10, 100, 1000, 100000):
            vals = []
            for k in range(0, max_tick, 1 if tps <= 100 else 3):
                vals += [(k / tps, True), (k * (1.0 / tps), False), (k / tps + rng.random() / tps, False)]
            src, out1, out2 = (os.path.join(d, f"{n}{tps}.csv") for n in ("in", "s1_", "s2_"))
            with open(src, "w", newline="") as f:
                w = csv.writer(f)
                w.writerow(hdr)
                for i, (x, _g) in enumerate(vals):
                    w.writerow([f"p{i}", repr(x), "QUERY", "op1", "", "1", "const", "", "1"])
            with contextlib.redirect_stdout(io.StringIO()):
                tools.snap_command(src, out1, tps, force=True)
                tools.snap_command(out1, out2, tps, force=True)
            once = [float(r["arrival_seconds"]) for r in csv.DictReader(open(out1))]
            twice = [float(r["arrival_seconds"]) for r in csv.DictReader(open(out2))]
            if len(once) != len(vals) or len(twice) != len(vals):
                kinds["rows-lost"] = kinds.get("rows-lost", 0) + 1
                first.setdefault("rows-lost", {"ticks_per_second": tps, "in": len(vals), "out": len(once)})
                continue
            for (x, on_grid), y, z in zip(vals, once, twice):
                total += 1
                bad = None
                if y > x:
                    bad = "moved-up"
                elif not (x < (round(y * tps) + 1) / tps):
                    bad = "moved-a-tick-or-more"
                elif on_grid and y != x:
                    bad = "on-grid-value-moved"
                elif z != y:
                    bad = "not-idempotent"
                if bad:
                    kinds[bad] = kinds.get(bad, 0) + 1
                    first.setdefault(bad, {"original": x, "ticks_per_second": tps, "snapped": y, "snapped_twice": z})
    return {"name": "bounded:snap-float-grid", "ok": not kinds, "bounded": f"ticks < {max_tick} at 8 tick rates, on-grid, gentrace-style and random off-grid values, through the real snap command",
            "cases": total, "kinds": kinds, "witness": first, "finding_kinds": sorted(kinds),
            "detail": "never up, by less than a tick, on-grid fixed, idempotent" if not kinds else f"deviations: {kinds}"}


def tools_files(repo, seed=0, n=40):
    """C20 bounded: the real `snap` and `jitter` commands on random trace files: only the arrival column changes, within bounds,
    jitter reproducible per seed and output in ascending arrival order with each pipeline's rows kept together."""
    import csv, io, random, tempfile, contextlib
    sys.path.insert(0, repo)
    logging.disable(logging.CRITICAL)
    from eudoxia import tools
    rng = random.Random(seed)
    cols = ["pipeline_id", "arrival_seconds", "priority", "operator_id", "parents", "baseline_cpu_seconds", "cpu_scaling", "memory_gb", "storage_read_gb"]
    problems = []
    with tempfile.TemporaryDirectory() as d:
        for case in range(n):
            rows, t = [], 0.0
            # "for all traces": a third of the files are not in arrival order (two traces concatenated), a third reuse a
            # pipeline id for a later, non-adjacent pipeline (the reader loads those as separate pipelines), and a third carry
            # an extra column and a header in a different order (readers look columns up by name)
            unsorted_in, reuse_ids, odd_header = rng.random() < 0.35, rng.random() < 0.35, rng.random() < 0.35
            fcols = list(cols)
            if odd_header:
                fcols.append("note")
                rng.shuffle(fcols)
            ng = rng.randint(3, 8) if unsorted_in else rng.randint(1, 8)
            if unsorted_in:
                t = 1.0
            for i in range(ng):
                t += rng.choice([0, 0.001, 0.29, 1.0, rng.random() * 3])
                if unsorted_in and i == ng // 2:
                    t = rng.choice([0.0, 0.25, 0.5])       # strictly before everything written so far
                pid_ = f"p{i - 2}" if (reuse_ids and i >= 2 and i % 2 == 0) else f"p{i}"
                for j in range(rng.randint(1, 3)):
                    r = {"pipeline_id": pid_, "arrival_seconds": repr(t) if j == 0 else "", "priority": "QUERY" if j == 0 else "",
                         "operator_id": f"g{i}op{j+1}", "parents": "" if j == 0 else f"g{i}op{j}", "baseline_cpu_seconds": str(rng.choice([1, 2.5, 15])),
                         "cpu_scaling": rng.choice(["const", "linear3", "sqrt"]), "memory_gb": rng.choice(["", "0", "12.5"]),
                         "storage_read_gb": str(rng.choice([0, 10, 37.5]))}
                    if odd_header:
                        r["note"] = f"n{i}-{j}"
                    rows.append(r)
            src = os.path.join(d, f"in{case}.csv")
            with open(src, "w", newline="") as f:
                w = csv.DictWriter(f, fieldnames=fcols); w.writeheader(); w.writerows(rows)
            tps = rng.choice([1, 3, 10, 100, 1000])
            delta = 0 if (unsorted_in and case % 2 == 0) else rng.choice([0, 0.5, 2.0])
            sd = rng.randint(0, 5)
            outs = {}
            with contextlib.redirect_stdout(io.StringIO()):
                tools.snap_command(src, os.path.join(d, f"s{case}.csv"), tps, force=True)
                tools.jitter_command(src, os.path.join(d, f"j{case}a.csv"), delta, seed=sd, force=True)
                tools.jitter_command(src, os.path.join(d, f"j{case}b.csv"), delta, seed=sd, force=True)
            rd = lambda p: list(csv.DictReader(open(p)))
            hd = lambda p: open(p).readline().rstrip("\r\n").split(",")
            s_rows, ja, jb = rd(os.path.join(d, f"s{case}.csv")), rd(os.path.join(d, f"j{case}a.csv")), rd(os.path.join(d, f"j{case}b.csv"))
            if hd(os.path.join(d, f"s{case}.csv")) != fcols:
                problems.append(("snap-changed-the-header", case, hd(os.path.join(d, f"s{case}.csv")), fcols))
            if hd(os.path.join(d, f"j{case}a.csv")) != fcols:
                problems.append(("jitter-changed-the-header", case, hd(os.path.join(d, f"j{case}a.csv")), fcols))
            other = lambda r: {k: v for k, v in r.items() if k != "arrival_seconds"}
            if len(s_rows) != len(rows) or any(other(a) != other(b) for a, b in zip(rows, s_rows)):
                problems.append(("snap-changed-other-columns-or-rows", case))
            for a, b in zip(rows, s_rows):
                if (a["arrival_seconds"] == "") != (b["arrival_seconds"] == ""):
                    problems.append(("snap-blank-arrival-changed", case))
                elif a["arrival_seconds"]:
                    x, y = float(a["arrival_seconds"]), float(b["arrival_seconds"])
                    if y > x or not (x - y < 1.0 / tps + 1e-12):
                        problems.append(("snap-out-of-bounds", case, x, y, tps))
            if ja != jb:
                problems.append(("jitter-not-reproducible", case))
            if sorted(map(lambda r: tuple(sorted(other(r).items())), ja)) != sorted(map(lambda r: tuple(sorted(other(r).items())), rows)):
                problems.append(("jitter-changed-other-columns-or-rows", case, len(ja), len(rows)))

            def groups(rs):
                # a pipeline = a maximal run of consecutive rows with one pipeline id (how the reader and the tool group rows);
                # identified by the operator id of its first row, which is unique in these files
                out = []
                for r in rs:
                    if out and out[-1][0]["pipeline_id"] == r["pipeline_id"] and not r["arrival_seconds"]:
                        out[-1].append(r)
                    else:
                        out.append([r])
                return out
            gin, gout = groups(rows), groups(ja)
            old = {g[0]["operator_id"]: (float(g[0]["arrival_seconds"]), [other(r) for r in g]) for g in gin}
            new, last = {}, None
            for g in gout:
                if not g[0]["arrival_seconds"]:
                    problems.append(("jitter-first-row-without-arrival-or-pipeline-rows-split", case)); continue
                a_ = float(g[0]["arrival_seconds"])
                new[g[0]["operator_id"]] = (a_, [other(r) for r in g])
                if last is not None and a_ < last:
                    problems.append(("jitter-not-ascending", case, last, a_))
                last = a_
            if len(gout) != len(gin):
                problems.append(("jitter-pipeline-count", case, len(gin), len(gout)))
            for k_, (x, body) in old.items():
                if k_ not in new or new[k_][1] != body:
                    problems.append(("jitter-pipeline-lost-or-rows-split", case, k_))
                elif not (-1e-12 <= new[k_][0] - x <= delta + 1e-12):
                    problems.append(("jitter-out-of-bounds", case, k_, x, new[k_][0], delta))
            # equal new arrivals keep their input order (stable sort)
            pos = {g[0]["operator_id"]: n_ for n_, g in enumerate(gin)}
            for g1, g2 in zip(gout, gout[1:]):
                k1, k2 = g1[0]["operator_id"], g2[0]["operator_id"]
                if k1 in new and k2 in new and new[k1][0] == new[k2][0] and pos.get(k1, 0) > pos.get(k2, 0):
                    problems.append(("jitter-equal-arrivals-reordered", case, k1, k2))
    kinds = {}
    for p in problems:
        kinds[p[0]] = kinds.get(p[0], 0) + 1
    return {"name": "bounded:tools-on-files", "ok": not problems, "bounded": f"{n} random trace files through the real snap/jitter commands",
            "cases": n, "kinds": kinds, "witness": problems[:3], "finding_kinds": sorted(kinds), "detail": "ok" if not problems else str(kinds)}


def sensitivity_seed(repo):
    """C20 bounded: _sensitivity_task builds workload i from seed start_seed + i (sensitivity analysis itself stubbed out)"""
    import io, tempfile, contextlib, types
    sys.path.insert(0, repo)
    logging.disable(logging.CRITICAL)
    from eudoxia import tools
    from eudoxia.simulator import parse_args_with_defaults
    from eudoxia.workload import WorkloadGenerator
    from eudoxia.workload.csv_io import WorkloadTraceGenerator
    calls = []
    tools.sensitivity_command = lambda *a, **k: calls.append(a)
    out = {}
    with tempfile.TemporaryDirectory() as d:
        pf = os.path.join(d, "p.toml")
        open(pf, "w").write("duration = 30\nticks_per_second = 10\nwaiting_seconds_mean = 2.0\nrandom_seed = 3\n")
        so, se = sys.stdout, sys.stderr
        try:
            for i, seed in enumerate((7, 8)):
                t = tools.SensitivityTask(workload_index=i, params_file=pf, output_dir=d, seed=seed, jitter_seed=None)
                tools._sensitivity_task(t)
                out[seed] = open(os.path.join(d, f"w{i}.csv")).read()
        finally:
            sys.stdout, sys.stderr = so, se
        import tomllib
        params = parse_args_with_defaults(tomllib.load(open(pf, "rb")))
        ref = {}
        for seed in (7, 8):
            p2 = dict(params, random_seed=seed)
            gen = WorkloadTraceGenerator(workload=WorkloadGenerator(**p2), ticks_per_second=params["ticks_per_second"], duration_secs=params["duration"])
            buf = io.StringIO()
            from eudoxia.workload.csv_io import CSVWorkloadWriter
            w = CSVWorkloadWriter(buf)
            for row in gen.generate_rows():
                w.write_row(row)
            ref[seed] = buf.getvalue().replace("\r\n", "\n")
    probs = []
    # the real sensitivity_sample_command with the process pool replaced by an in-process map that runs the real task function
    class _FakePool:
        def __init__(self, processes=None): pass
        def __enter__(self): return self
        def __exit__(self, *a): return False
        def map(self, f, tasks):
            out_ = []
            for t in tasks:
                so_, se_ = sys.stdout, sys.stderr     # the task function redirects both (it normally runs in a child process)
                try:
                    out_.append(f(t))
                finally:
                    sys.stdout, sys.stderr = so_, se_
            return out_
    real_pool = tools.multiprocessing.Pool
    tools.multiprocessing.Pool = _FakePool
    whole = {}
    try:
        with tempfile.TemporaryDirectory() as d2:
            pf2 = os.path.join(d2, "p.toml")
            open(pf2, "w").write("duration = 30\nticks_per_second = 10\nwaiting_seconds_mean = 2.0\nrandom_seed = 3\n")
            so, se = sys.stdout, sys.stderr
            try:
                with contextlib.redirect_stdout(io.StringIO()):
                    tools.sensitivity_sample_command(pf2, os.path.join(d2, "out"), 2, start_seed=7)
            finally:
                sys.stdout, sys.stderr = so, se
            for i in (0, 1):
                fp = os.path.join(d2, "out", f"w{i}.csv")
                whole[7 + i] = open(fp).read() if os.path.exists(fp) else None
    finally:
        tools.multiprocessing.Pool = real_pool
    for seed in (7, 8):
        if whole.get(seed) is None or whole[seed].replace("\r\n", "\n") != ref[seed]:
            probs.append(f"sample-{seed - 7}-not-built-from-seed-start+{seed - 7}")
    if out[7] == out[8]:
        probs.append("different-seeds-same-workload")
    for seed in (7, 8):
        if out[seed].replace("\r\n", "\n") != ref[seed]:
            probs.append(f"workload-not-from-seed-{seed}")
    return {"name": "bounded:sensitivity-seed", "ok": not probs, "bounded": "two samples (seeds 7, 8), sensitivity analysis stubbed", "cases": 2,
            "kinds": {p: 1 for p in probs}, "finding_kinds": probs, "witness": probs, "detail": "ok" if not probs else str(probs)}


CHILDREN.update({"snap_float_grid": snap_float_grid, "tools_files": tools_files, "sensitivity_seed": sensitivity_seed})


# ------------------------------------------------------------------------------------------------
def _percentile_linear(vals, q):
    v = sorted(vals)
    if not v:
        return float("nan")
    pos = (len(v) - 1) * q / 100.0
    lo = int(pos)
    hi = min(lo + 1, len(v) - 1)
    return v[lo] + (v[hi] - v[lo]) * (pos - lo)


def sim_recount(repo, seed=0, n=60):
    """C06 bounded: the real run_simulator with recording wrappers around the workload, the scheduler and the executor;
    every returned statistic is compared with an independent recount of the recorded arrivals, decisions and results
    (completion = first tick at whose end every operator of the pipeline is COMPLETED, read from the per-operator table)."""
    import math, random, collections
    sys.path.insert(0, repo)
    logging.disable(logging.CRITICAL)
    import eudoxia.simulator as sim
    from eudoxia.workload import WorkloadGenerator
    from eudoxia.workload.pipeline import Pipeline, Segment
    from eudoxia.workload.runtime_status import OperatorState
    from eudoxia.utils import Priority
    sys.path.insert(0, HERE)
    from pyvc.native_scenarios import mk_pipeline
    ns = {"Pipeline": Pipeline, "Segment": Segment, "Priority": Priority}
    RealExec, RealSched = sim.Executor, sim.Scheduler
    log = {}

    class RecExec(RealExec):
        def run_one_tick(self, suspensions, assignments):
            res = super().run_one_tick(suspensions, assignments)
            log["results"].append(list(res))
            # completion observed from the per-operator table at the end of this tick
            t = len(log["results"]) - 1
            for p in log["arrived"]:
                if id(p) not in log["finish"]:
                    states = list(p.runtime_status().operator_states.values())
                    if all(s == OperatorState.COMPLETED for s in states):
                        log["finish"][id(p)] = t
            return res

    class RecSched(RealSched):
        def run_one_tick(self, results, new_pipelines):
            sus, asg = super().run_one_tick(results, new_pipelines)
            log["decisions"].append((list(sus), list(asg)))
            return sus, asg

    class RecWorkload:
        def __init__(self, inner):
            self.inner = inner
        def run_one_tick(self):
            out = self.inner.run_one_tick()
            t = len(log["arrivals"])
            log["arrivals"].append(list(out))
            for p in out:
                log["arrived"].append(p)
                log["arrival_tick"][id(p)] = t
            return out

    class ListWorkload:
        def __init__(self, by_tick):
            self.by_tick, self.t = by_tick, -1
        def run_one_tick(self):
            self.t += 1
            return self.by_tick.get(self.t, [])

    sim.Executor, sim.Scheduler = RecExec, RecSched
    problems, runs, crashed = [], 0, 0
    rng = random.Random(seed)
    try:
        for case in range(n):
            algo = rng.choice(["naive", "priority", "priority-pool", "overbook"])
            tps = rng.choice([1, 10, 100])
            multi = rng.random() < 0.5 if algo != "priority-pool" else True
            params = dict(duration=rng.choice([0.5, 3, 20, 60]), ticks_per_second=tps, scheduler_algo=algo,
                          num_pools=2 if algo == "priority-pool" else rng.choice([1, 2]), cpus_per_pool=rng.choice([2, 8, 32]),
                          ram_gb_per_pool=rng.choice([16, 64, 256]), multi_operator_containers=multi,
                          allow_memory_overcommit=(algo == "overbook"), random_seed=rng.randint(0, 10**6),
                          waiting_seconds_mean=rng.choice([0.2, 1.0, 5.0]), num_pipelines=rng.choice([1, 3]), num_operators=rng.choice([1, 3, 6]))
            full = sim.parse_args_with_defaults(dict(params))
            max_ticks = int(full["duration"] * tps)
            kind = rng.random()
            if kind < 0.4:
                inner = WorkloadGenerator(**full)
            elif kind < 0.6:
                # forks and diamonds with identical sibling operators: several containers of one pipeline end in the same tick
                by_tick, r2 = {}, random.Random(rng.randint(0, 10**6))
                for j in range(r2.randint(1, 4)):
                    p = Pipeline(f"tw{case}_{j}", r2.choice(list(Priority)))
                    seg = lambda: Segment(baseline_cpu_seconds=r2.choice([0.5, 1, 2]), cpu_scaling="const", memory_gb=1, storage_read_gb=0)
                    root = p.new_operator()
                    root.add_segment(seg())
                    cpu_s = r2.choice([0.5, 1, 3])
                    kids = []
                    for _k in range(r2.choice([2, 3])):
                        o = p.new_operator([root])
                        o.add_segment(Segment(baseline_cpu_seconds=cpu_s, cpu_scaling="const", memory_gb=1, storage_read_gb=0))
                        kids.append(o)
                    if r2.random() < 0.4:
                        p.new_operator(kids).add_segment(seg())
                    by_tick.setdefault(r2.choice([0, 1, 2]), []).append(p)
                inner = ListWorkload(by_tick)
            else:
                by_tick, r2 = {}, random.Random(rng.randint(0, 10**6))
                for j in range(r2.randint(1, 6)):
                    p, _ops = mk_pipeline(ns, r2, f"r{case}_{j}", zero_ok=r2.random() < 0.5)
                    p._runtime_status = None      # arrival is recorded by the simulator on a fresh status
                    by_tick.setdefault(r2.choice([0, 0, 1, 2, max(0, max_ticks // 2)]), []).append(p)
                inner = ListWorkload(by_tick)
            log.clear()
            log.update(results=[], decisions=[], arrivals=[], arrived=[], arrival_tick={}, finish={})
            try:
                stats = sim.run_simulator(dict(params), workload=RecWorkload(inner))
            except Exception as e:      # whether a run ends at all is C08's subject, not this check's
                crashed += 1
                continue
            runs += 1
            bad = []
            def eq(name, got, want):
                ok = (got == want) or (isinstance(got, float) and isinstance(want, float) and ((math.isnan(got) and math.isnan(want)) or math.isclose(got, want, rel_tol=1e-9, abs_tol=1e-12)))
                if not ok:
                    bad.append((name, got, want))
            arrivals = [p for a in log["arrivals"] for p in a]
            res = [r for rr in log["results"] for r in rr]
            eq("pipelines_created", stats.pipelines_created, len(arrivals))
            eq("assignments", stats.assignments, sum(len(a) for _s, a in log["decisions"]))
            eq("suspensions", stats.suspensions, sum(len(s) for s, _a in log["decisions"]))
            eq("failures", stats.failures, sum(1 for r in res if r.error is not None))
            eq("failure_error_counts", dict(stats.failure_error_counts), dict(collections.Counter(r.error for r in res if r.error is not None)))
            ok_res = sum(1 for r in res if r.error is None)
            eq("containers_completed", stats.containers_completed, ok_res)
            eq("throughput", float(stats.throughput), ok_res / full["duration"])
            tot_a = tot_c = 0
            for pr, ps in ((Priority.QUERY, stats.pipelines_query), (Priority.INTERACTIVE, stats.pipelines_interactive), (Priority.BATCH_PIPELINE, stats.pipelines_batch), (None, stats.pipelines_all)):
                mine = [p for p in arrivals if pr is None or p.priority == pr]
                lat = [log["finish"][id(p)] - log["arrival_tick"][id(p)] for p in mine if id(p) in log["finish"]]
                tag = pr.name if pr else "ALL"
                eq(f"{tag}.arrival_count", ps.arrival_count, len(mine))
                eq(f"{tag}.completion_count", ps.completion_count, len(lat))
                eq(f"{tag}.mean_latency_seconds", float(ps.mean_latency_seconds), (sum(lat) / len(lat) / tps) if lat else float("nan"))
                eq(f"{tag}.p99_latency_seconds", float(ps.p99_latency_seconds), (_percentile_linear(lat, 99) / tps) if lat else float("nan"))
                if pr is not None:
                    tot_a += ps.arrival_count; tot_c += ps.completion_count
            eq("partition.arrivals", tot_a, stats.pipelines_all.arrival_count)
            eq("partition.completions", tot_c, stats.pipelines_all.completion_count)
            for p in arrivals:
                rs = p.runtime_status()
                eq("arrival_tick", rs.arrival_tick, log["arrival_tick"][id(p)])
                eq("finish_tick", rs.finish_tick, log["finish"].get(id(p)))
            if bad:
                problems.append({"case": case, "params": params, "mismatches": [(a, repr(b), repr(c)) for a, b, c in bad[:4]]})
    finally:
        sim.Executor, sim.Scheduler = RealExec, RealSched
    kinds = {}
    for pb in problems:
        for m in pb["mismatches"]:
            kinds[m[0]] = kinds.get(m[0], 0) + 1
    return {"name": "bounded:stats-recount", "ok": not problems, "bounded": f"{n} random runs (4 schedulers, tick rates 1/10/100, generated and hand-built DAG workloads)",
            "cases": runs, "runs_that_raised_and_were_skipped": crashed, "kinds": kinds, "finding_kinds": sorted(kinds), "witness": problems[:2],
            "detail": "returned statistics equal the recount" if not problems else f"mismatches: {kinds}"}


def sim_uncontended(repo, seed=0, n=60):
    """C06 bounded: one pipeline alone on a pool that fits it finishes after exactly the ticks its operators need:
    latency = sum over operators of max(1, ticks of its segments) - 1 (the first tick is the arrival tick)."""
    import random
    sys.path.insert(0, repo)
    logging.disable(logging.CRITICAL)
    import eudoxia.simulator as sim
    from eudoxia.workload.pipeline import Pipeline, Segment
    from eudoxia.utils import Priority
    rng = random.Random(seed)
    problems = []

    class One:
        def __init__(self, at, p):
            self.at, self.p, self.t = at, p, -1
        def run_one_tick(self):
            self.t += 1
            return [self.p] if self.t == self.at else []
    for case in range(n):
        tps = rng.choice([1, 2, 10, 100])
        tl = 1.0 / tps
        p = Pipeline(f"u{case}", rng.choice(list(Priority)))
        prev, need = None, []
        for _ in range(1 if p.priority == Priority.QUERY and rng.random() < 0.5 else rng.randint(1, 4)):
            op = p.new_operator([prev] if prev else None)
            k = 0
            for _s in range(rng.randint(1, 3)):
                cpu, read = rng.choice([0, 0.004, 0.5, 1, 2.5]), rng.choice([0, 0.1, 20, 30])
                op.add_segment(Segment(baseline_cpu_seconds=cpu, cpu_scaling="const", memory_gb=rng.choice([None, 1]), storage_read_gb=read))
                k += int((read / 20) / tl) + int(cpu / tl)
            need.append(max(1, k))
            prev = op
        algo = rng.choice(["naive", "priority", "overbook"])
        multi = rng.random() < 0.5
        at = rng.choice([0, 1, 5])
        try:
            sim.run_simulator(dict(duration=(sum(need) + at + 5) / tps + 1, ticks_per_second=tps, scheduler_algo=algo, num_pools=1, cpus_per_pool=16,
                                   ram_gb_per_pool=500, multi_operator_containers=multi, allow_memory_overcommit=(algo == "overbook")), workload=One(at, p))
        except Exception as e:
            problems.append({"case": case, "raised": repr(e)[:200]})
            continue
        rs = p.runtime_status()
        lat = None if rs.finish_tick is None else rs.finish_tick - rs.arrival_tick
        exp = sum(need) - 1
        # schedulers that start one operator per container in single-operator mode need one more scheduling round per further operator
        if lat != exp:
            problems.append({"case": case, "algo": algo, "multi": multi, "tps": tps, "need": need, "latency": lat, "expected": exp})
    kinds = {}
    for pb in problems:
        k = "raised" if "raised" in pb else "latency-differs"
        kinds[k] = kinds.get(k, 0) + 1
    return {"name": "bounded:uncontended-latency", "ok": not problems, "bounded": f"{n} single-pipeline runs (chains of 1..4 operators, 1..3 segments each)",
            "cases": n, "kinds": kinds, "finding_kinds": sorted(kinds), "witness": problems[:3],
            "detail": "latency equals the operators' ticks" if not problems else str(kinds)}


CHILDREN.update({"sim_recount": sim_recount, "sim_uncontended": sim_uncontended})


# ------------------------------------------------------------------------------------------------
def csv_roundtrip(repo, seed=0, n=150):
    """C14 bounded: random workloads (multi-parent DAGs with several roots built out of breadth-first order, all seven
    scaling laws, zero / tiny / huge / decimal values, memory 0 versus unset, several pipelines per arrival time) written
    by the real writer and read back by the real reader; read-then-rewrite reproduces every row; malformed files refused."""
    import io, csv, random
    sys.path.insert(0, repo)
    logging.disable(logging.CRITICAL)
    from eudoxia.workload.csv_io import CSVWorkloadReader, CSVWorkloadWriter, WorkloadTraceGenerator, CSVOperatorRow
    from eudoxia.workload.pipeline import Pipeline, Segment
    from eudoxia.utils import Priority
    rng = random.Random(seed)
    laws = list(Segment.SCALING_FUNCS.keys())
    nums = [0, 0.0, 1, 2, 2.5, 1e-9, 1e-300, 1e12, 123456789.123456789, 0.1 + 0.2, 1 / 3, 15, 0.004]
    problems = []
    gen = WorkloadTraceGenerator(workload=None, ticks_per_second=1, duration_secs=1)

    def describe(p):
        ops = list(p.values.node_lookup.values())
        out = []
        for op in ops:
            segs = op.get_segments()
            sg = segs[0]
            law = [k for k, f in Segment.SCALING_FUNCS.items() if f == sg.scaling_func]
            out.append((tuple(sorted(ops.index(q) for q in op.parents)), float(sg.baseline_cpu_seconds), law[0] if law else None,
                        None if sg.memory_gb is None else float(sg.memory_gb), float(sg.storage_read_gb), len(segs)))
        return (p.priority, out)

    for case in range(n):
        pipes, t = [], 0.0
        for i in range(rng.randint(1, 6)):
            if rng.random() < 0.6:
                t += rng.choice([0.001, 0.5, 1, 1 / 3, 7.25, 1e-7])
            p = Pipeline(f"orig{i}", rng.choice(list(Priority)))
            ops = []
            for j in range(rng.randint(1, 6) if rng.random() < 0.8 else rng.randint(10, 14)):
                k = rng.randint(0, min(3, len(ops)))
                parents = rng.sample(ops, k) if k else None      # k = 0 -> another root, possibly after non-roots
                if len(ops) >= 10 and rng.random() < 0.5:
                    # operator ids where one is a prefix of the other (op1 / op10, op1 / op11), in both listing orders
                    parents = [ops[9], ops[0]] if rng.random() < 0.5 else [ops[0], ops[len(ops) - 1], ops[1]]
                op = p.new_operator(parents)
                op.add_segment(Segment(baseline_cpu_seconds=rng.choice(nums), cpu_scaling=rng.choice(laws),
                                       memory_gb=rng.choice([None, None, 0, 0.0, 5, 0.001, 1e6]), storage_read_gb=rng.choice(nums)))
                ops.append(op)
            pipes.append((t, p))
        buf = io.StringIO()
        w = CSVWorkloadWriter(buf)
        for i, (t, p) in enumerate(pipes):
            for row in gen._pipeline_to_rows(p, f"p{i+1}", t):
                w.write_row(row)
        text = buf.getvalue()
        try:
            back = list(CSVWorkloadReader(io.StringIO(text)).batch_by_pipeline())
            batches = list(CSVWorkloadReader(io.StringIO(text)).batch_by_arrival())
        except Exception as e:
            problems.append(("reader-refuses-what-the-writer-wrote", case, repr(e)[:200])); continue
        if len(back) != len(pipes):
            problems.append(("pipeline-count", case, len(back), len(pipes))); continue
        for i, ((t, p), pa) in enumerate(zip(pipes, back)):
            if pa.arrival_seconds != t:
                problems.append(("arrival-time", case, i, pa.arrival_seconds, t))
            if pa.pipeline.pipeline_id != f"p{i+1}":
                problems.append(("pipeline-order-or-id", case, i))
            a, b = describe(p), describe(pa.pipeline)
            if a != b:
                field = "priority" if a[0] != b[0] else "operator-count" if len(a[1]) != len(b[1]) else \
                    next(("operator-%s" % ["parents", "cpu-seconds", "scaling-law", "memory", "read-size", "segments"][k]
                          for x, y in zip(a[1], b[1]) for k in range(6) if x[k] != y[k]), "operator")
                problems.append((field, case, i, str(a)[:200], str(b)[:200]))
        flat = [pa for bt in batches for pa in bt]
        if [pa.pipeline.pipeline_id for pa in flat] != [pa.pipeline.pipeline_id for pa in back] or \
                any(pa.arrival_seconds != bt[0].arrival_seconds for bt in batches for pa in bt) or \
                any(b1[0].arrival_seconds == b2[0].arrival_seconds for b1, b2 in zip(batches, batches[1:])):
            problems.append(("batches-by-arrival", case))
        # read -> write again reproduces every row (arrival column aside)
        buf2 = io.StringIO()
        w2 = CSVWorkloadWriter(buf2)
        for i, pa in enumerate(back):
            for row in gen._pipeline_to_rows(pa.pipeline, pa.pipeline.pipeline_id, pa.arrival_seconds):
                w2.write_row(row)
        # buf2 is a trace in the writer's own format (every number a float as the reader produced it); read it and write it once more
        buf3 = io.StringIO()
        w3 = CSVWorkloadWriter(buf3)
        try:
            for pa in CSVWorkloadReader(io.StringIO(buf2.getvalue())).batch_by_pipeline():
                for row in gen._pipeline_to_rows(pa.pipeline, pa.pipeline.pipeline_id, pa.arrival_seconds):
                    w3.write_row(row)
        except Exception as e:
            problems.append(("reader-refuses-what-the-writer-wrote", case, repr(e)[:200])); continue
        r1 = [{k: v for k, v in r.items() if k != "arrival_seconds"} for r in csv.DictReader(io.StringIO(buf2.getvalue()))]
        r2 = [{k: v for k, v in r.items() if k != "arrival_seconds"} for r in csv.DictReader(io.StringIO(buf3.getvalue()))]
        if len(r1) != len(list(csv.DictReader(io.StringIO(text)))):
            problems.append(("rewrite-row-count", case))
        if r1 != r2:
            problems.append(("rewrite-differs", case, str([(a, b) for a, b in zip(r1, r2) if a != b][:1])[:300]))
    # malformed traces must be refused
    hdr = "pipeline_id,arrival_seconds,priority,operator_id,parents,baseline_cpu_seconds,cpu_scaling,memory_gb,storage_read_gb\n"
    good2 = "p1,1.5,QUERY,op1,,1,const,,10\np1,,,op2,op1,2,linear3,0,5\n"
    bad = {"missing-priority-first-row": "p1,1.5,,op1,,1,const,,10\n", "missing-arrival-first-row": "p1,,QUERY,op1,,1,const,,10\n",
           "priority-on-later-row": "p1,1.5,QUERY,op1,,1,const,,10\np1,,QUERY,op2,op1,2,const,,5\n",
           "arrival-on-later-row": "p1,1.5,QUERY,op1,,1,const,,10\np1,1.5,,op2,op1,2,const,,5\n",
           "arrival-and-priority-on-later-row": "p1,1.5,QUERY,op1,,1,const,,10\np1,2.5,QUERY,op2,,2,const,,5\n",
           "same-arrival-and-priority-on-later-row": "p1,1.5,QUERY,op1,,1,const,,10\np1,1.5,BATCH_PIPELINE,op2,op1,2,const,,5\n",
           "zero-arrival-on-later-row": "p1,0,QUERY,op1,,1,const,,10\np1,0,,op2,op1,2,const,,5\n",
           "zero-point-zero-arrival-on-later-row": "p1,1.5,QUERY,op1,,1,const,,10\np1,0.0,,op2,op1,2,const,,5\n",
           "unknown-priority": "p1,1.5,URGENT,op1,,1,const,,10\n", "unknown-scaling-law": "p1,1.5,QUERY,op1,,1,cubic,,10\n",
           "undefined-parent": "p1,1.5,QUERY,op1,,1,const,,10\np1,,,op2,op9,2,const,,5\n",
           "parent-defined-later": "p1,1.5,QUERY,op1,op2,1,const,,10\np1,,,op2,,2,const,,5\n"}
    try:
        ok = list(CSVWorkloadReader(io.StringIO(hdr + good2)).batch_by_pipeline())
        if len(ok) != 1 or len(list(ok[0].pipeline.values.node_lookup)) != 2:
            problems.append(("well-formed-file-misread", "good2"))
    except Exception as e:
        problems.append(("well-formed-file-refused", repr(e)[:100]))
    for name, body in bad.items():
        try:
            list(CSVWorkloadReader(io.StringIO(hdr + body)).batch_by_pipeline())
            problems.append(("malformed-accepted:" + name, body))
        except Exception:
            pass
    kinds = {}
    for pb in problems:
        kinds[pb[0]] = kinds.get(pb[0], 0) + 1
    return {"name": "bounded:csv-roundtrip", "ok": not problems, "bounded": f"{n} random workloads (<= 6 pipelines x <= 14 operators), 12 malformed files",
            "cases": n, "kinds": kinds, "finding_kinds": sorted(kinds), "witness": [list(map(str, p))[:5] for p in problems[:3]],
            "detail": "round trips exact; malformed files refused" if not problems else str(kinds)}


CHILDREN.update({"csv_roundtrip": csv_roundtrip})


# ------------------------------------------------------------------------------------------------
def gentrace_roundtrip(repo, seed=0, n=40):
    """C13 bounded: a workload pushed through the real WorkloadTraceGenerator, the real writer and the real reader must
    replay every pipeline in the tick in which it was generated.  A pipeline that comes back one tick late although the file
    holds exactly tick * (1/tps) and (a / (1/tps)) rounds above the tick is the recorded finding D4; anything else is new."""
    import io, random
    sys.path.insert(0, repo)
    logging.disable(logging.CRITICAL)
    from eudoxia.workload.csv_io import CSVWorkloadReader, CSVWorkloadWriter, WorkloadTraceGenerator
    from eudoxia.workload.pipeline import Pipeline, Segment
    from eudoxia.utils import Priority
    rng = random.Random(seed)
    kinds, first, total = {}, {}, 0

    class W:
        def __init__(self, ticks):
            self.ticks, self.t, self.n = set(ticks), -1, 0
        def run_one_tick(self):
            self.t += 1
            if self.t not in self.ticks:
                return []
            p = Pipeline(f"g{self.t}", Priority.QUERY)
            p.new_operator().add_segment(Segment(baseline_cpu_seconds=1, cpu_scaling="const", storage_read_gb=1))
            return [p]

    for case in range(n):
        tps = rng.choice([1, 2, 3, 7, 10, 60, 100, 128, 1000, 4096, 100000])
        horizon = rng.choice([40, 400, 3000])
        ticks = sorted(set(rng.randint(0, horizon - 1) for _ in range(rng.randint(5, 60))) | {horizon - 1})
        gen = WorkloadTraceGenerator(workload=W(ticks), ticks_per_second=tps, duration_secs=horizon / tps + 0.5 / tps)
        buf = io.StringIO()
        w = CSVWorkloadWriter(buf)
        rows = list(gen.generate_rows())
        for r in rows:
            w.write_row(r)
        if len(rows) != len(ticks):
            kinds["generator-lost-pipelines"] = kinds.get("generator-lost-pipelines", 0) + 1
            first.setdefault("generator-lost-pipelines", {"ticks_per_second": tps, "wanted": len(ticks), "rows": len(rows)})
            continue
        trace = CSVWorkloadReader(io.StringIO(buf.getvalue())).get_workload(tps)
        got = []
        for tick in range(horizon + 2):
            for p in trace.run_one_tick():
                got.append(tick)
        if len(got) != len(ticks):
            k = "not-delivered-or-duplicated"
            # the recorded finding can push the last arrivals past the replayed horizon
            kinds[k] = kinds.get(k, 0) + 1
            first.setdefault(k, {"ticks_per_second": tps, "generated": len(ticks), "delivered": len(got)})
            continue
        for t, d, r in zip(ticks, got, rows):
            total += 1
            if d == t:
                continue
            a = r.arrival_seconds
            if d == t + 1 and a == t * (1.0 / tps) and (a / (1.0 / tps)) > t:
                k = "late-by-rounding"
            else:
                k = "replayed-in-another-tick"
            kinds[k] = kinds.get(k, 0) + 1
            first.setdefault(k, {"generated_in_tick": t, "delivered_tick": d, "ticks_per_second": tps, "arrival_in_file": a})
    ok = not kinds
    return {"name": "bounded:gentrace-roundtrip", "ok": ok, "bounded": f"{n} generated traces, 11 tick rates incl. ones that do not divide 10^6",
            "cases": total, "kinds": kinds, "finding_kinds": sorted(kinds), "witness": first,
            "detail": "every pipeline replayed in the tick that generated it" if ok else f"deviations: {kinds}"}


CHILDREN.update({"gentrace_roundtrip": gentrace_roundtrip})


# ------------------------------------------------------------------------------------------------
def generator_shape(repo, seed=0, n=40):
    """C15 bounded: the real WorkloadGenerator over random parameter sets: every event delivers num_pipelines pipelines with
    fresh ids and the documented shape; a class with probability 0 never appears; gaps average the configured mean when it
    spans many ticks; a larger cpu_io_ratio shifts later operators towards the CPU-heavy prototypes."""
    import random
    sys.path.insert(0, repo)
    logging.disable(logging.CRITICAL)
    from eudoxia.simulator import parse_args_with_defaults
    from eudoxia.workload import WorkloadGenerator
    from eudoxia.workload.pipeline import Segment
    from eudoxia.utils import Priority
    F = Segment.SCALING_FUNCS
    protos = [(1, "const", 55), (2, "sqrt", 55), (5, "linear3", 45), (15, "linear3", 37.5), (20, "linear7", 30), (40, "linear7", 20), (80, "squared", 10)]
    qproto = (15, "linear3", 35)
    rng = random.Random(seed)
    problems = []

    def seg_key(sg):
        law = [k for k, f in F.items() if f == sg.scaling_func]
        return (sg.baseline_cpu_seconds, law[0] if law else None, sg.storage_read_gb)

    def run(params, max_events, max_ticks):
        g = WorkloadGenerator(**parse_args_with_defaults(dict(params)))
        events, t = [], 0
        while len(events) < max_events and t < max_ticks:
            out = g.run_one_tick()
            if out:
                events.append((t, out))
            t += 1
        return events

    def check_events(params, events, tag):
        seen = set()
        probs = {Priority.INTERACTIVE: params["interactive_prob"], Priority.QUERY: params["query_prob"], Priority.BATCH_PIPELINE: params["batch_prob"]}
        for t, out in events:
            if len(out) != params["num_pipelines"]:
                problems.append(("pipelines-per-event", tag, len(out), params["num_pipelines"])); return
            for p in out:
                if p.pipeline_id in seen:
                    problems.append(("id-not-fresh", tag, p.pipeline_id)); return
                seen.add(p.pipeline_id)
                if probs[p.priority] == 0:
                    problems.append(("class-with-probability-zero-appeared", tag, p.priority.name)); return
                ops = list(p.values.node_lookup.values())
                if p.priority == Priority.QUERY:
                    if len(ops) != 1 or len(ops[0].get_segments()) != 1 or seg_key(ops[0].get_segments()[0]) != qproto or ops[0].parents:
                        problems.append(("query-pipeline-shape", tag, len(ops))); return
                    continue
                if len(ops) < 1:
                    problems.append(("non-query-pipeline-without-operators", tag, p.pipeline_id)); return
                for i, op in enumerate(ops):
                    if list(op.parents) != ([ops[i - 1]] if i else []):
                        problems.append(("not-a-chain", tag, p.pipeline_id, i)); return
                    sg = op.get_segments()
                    if len(sg) != 1 or seg_key(sg[0]) not in protos or sg[0].memory_gb is not None:
                        problems.append(("segment-not-a-documented-prototype", tag, p.pipeline_id, i)); return
                    if i == 0 and seg_key(sg[0]) != protos[0]:
                        problems.append(("first-operator-not-io-heavy", tag, p.pipeline_id)); return

    triples = [(0.3, 0.1, 0.6), (0, 0, 1), (0, 1, 0), (1, 0, 0), (0.5, 0.5, 0), (0, 0.25, 0.75), (0.3, 0.2, 0.0), (3, 0, 1), (0.06, 0.57, 0.37)]
    for case in range(n):
        ip, qp, bp = rng.choice(triples)
        tps = rng.choice([1, 10, 100, 1000, 100000])
        params = dict(interactive_prob=ip, query_prob=qp, batch_prob=bp, num_pipelines=rng.choice([1, 2, 5]), num_operators=rng.choice([1, 2, 5, 9]),
                      waiting_seconds_mean=rng.choice([0.0004, 0.5, 2.5, 10.0, 0.29]), cpu_io_ratio=rng.choice([0, 0.3, 1]),
                      ticks_per_second=tps, random_seed=rng.randint(0, 10**6))
        try:
            events = run(params, 250, 400000)
        except Exception as e:
            problems.append(("generator-raised", case, repr(e)[:150])); continue
        check_events(params, events, case)
        for cls, pv in ((Priority.INTERACTIVE, ip), (Priority.QUERY, qp), (Priority.BATCH_PIPELINE, bp)):
            if pv > 0 and pv == ip + qp + bp and any(p.priority != cls for _t, out in events for p in out):
                problems.append(("class-with-probability-one-not-always", case, cls.name))
        mean_ticks = int(params["waiting_seconds_mean"] * tps)
        gaps = [b[0] - a[0] for a, b in zip(events, events[1:])]
        if any(g < 1 for g in gaps):
            problems.append(("events-less-than-a-tick-apart", case))
        expected = params["waiting_seconds_mean"] * tps
        if expected >= 20 and len(gaps) >= 150:
            avg = sum(gaps) / len(gaps)
            if abs(avg - expected) > 0.1 * expected:
                problems.append(("mean-gap-off", case, avg, expected, tps, params["waiting_seconds_mean"]))
    # cpu_io_ratio shifts the mix of later operators
    # (every step of the ladder 0, 0.25, .., 1 - both end points included - must raise the CPU-heavy share; a step moves the share
    # by about 0.09, the sampling error of a difference is about 0.012)
    for sd in range(3):
        frac = {}
        ladder = (0.0, 0.25, 0.5, 0.75, 1.0)
        for ratio in ladder:
            params = dict(interactive_prob=0.5, query_prob=0, batch_prob=0.5, num_pipelines=4, num_operators=6, waiting_seconds_mean=1.0,
                          cpu_io_ratio=ratio, ticks_per_second=1, random_seed=seed * 7 + sd)
            later = [seg_key(op.get_segments()[0]) for _t, out in run(params, 160, 100000) for p in out
                     for op in list(p.values.node_lookup.values())[1:]]
            frac[ratio] = sum(1 for k in later if k[0] >= 20) / max(1, len(later))
        if not (frac[1.0] > frac[0.0] + 0.15) or any(not (frac[b_] > frac[a_] + 0.03) for a_, b_ in zip(ladder, ladder[1:])):
            problems.append(("cpu-io-ratio-does-not-shift-the-mix", sd, frac))
    kinds = {}
    for pb in problems:
        kinds[pb[0]] = kinds.get(pb[0], 0) + 1
    return {"name": "bounded:generator-shape", "ok": not problems, "bounded": f"{n} random parameter sets x <= 250 events, 3 ratio comparisons",
            "cases": n, "kinds": kinds, "finding_kinds": sorted(kinds), "witness": [list(map(str, p))[:6] for p in problems[:3]],
            "detail": "generator output well-formed" if not problems else str(kinds)}


CHILDREN.update({"generator_shape": generator_shape})


# ------------------------------------------------------------------------------------------------
def config_sweep(repo, seed=0, n=120):
    """C08 bounded: the real run_simulator over random valid configurations with every shipped scheduler (naive, priority,
    priority-pool on two pools, overbook with overcommit, and the starter scheduler written by `eudoxia init`): the run must
    reach its last tick and return statistics without raising."""
    import random, traceback
    sys.path.insert(0, repo)
    logging.disable(logging.CRITICAL)
    import eudoxia.simulator as sim
    import eudoxia.__main__ as em
    from eudoxia.workload.pipeline import Pipeline, Segment
    from eudoxia.utils import Priority
    sys.path.insert(0, HERE)
    from pyvc.native_scenarios import mk_pipeline
    ns = {"Pipeline": Pipeline, "Segment": Segment, "Priority": Priority}
    exec(compile(em.SCHEDULER_TEMPLATE.format(scheduler_name="starter"), "<starter>", "exec"), {"__name__": "starter"})
    rng = random.Random(seed)
    problems, runs = [], 0
    triples = [(0.3, 0.1, 0.6), (0, 0, 1), (0, 1, 0), (1, 0, 0), (0.06, 0.57, 0.37), (0.1, 0.2, 0.7), (1 / 3, 1 / 3, 1 / 3), (0.5, 0.5, 0.0)]

    class ListWorkload:
        def __init__(self, by_tick):
            self.by_tick, self.t = by_tick, -1
        def run_one_tick(self):
            self.t += 1
            return self.by_tick.get(self.t, [])

    for case in range(n):
        algo = rng.choice(["naive", "priority", "priority-pool", "overbook", "starter"])
        tps = rng.choice([1, 2, 10, 100, 1000, 100000])
        # at most ~15 000 ticks per run, so that a child process of the sweep stays within its time budget
        duration = rng.choice([0.0004, 0.5, 2, 15, 90]) if tps <= 100 else rng.choice([0.0004, 0.5, 2, 15]) if tps <= 1000 \
            else rng.choice([0.000004, 0.001, 0.02])
        ip, qp, bp = rng.choice(triples)
        multi = rng.random() < 0.5
        params = dict(duration=duration, ticks_per_second=tps, scheduler_algo=algo, num_pools=2 if algo == "priority-pool" else rng.choice([1, 2, 4]),
                      cpus_per_pool=rng.choice([1, 2, 8, 64]), ram_gb_per_pool=rng.choice([0.5, 4, 32, 256]), multi_operator_containers=multi,
                      allow_memory_overcommit=True if algo == "overbook" else rng.random() < 0.2, random_seed=rng.randint(0, 10**6),
                      interactive_prob=ip, query_prob=qp, batch_prob=bp, waiting_seconds_mean=rng.choice([0.001, 0.3, 2.0]),
                      num_pipelines=rng.choice([1, 4]), num_operators=rng.choice([1, 3, 8]), cpu_io_ratio=rng.choice([0, 0.5, 1]))
        workload = None
        if rng.random() < 0.4:
            max_ticks = int(duration * tps)
            by_tick, r2 = {}, random.Random(rng.randint(0, 10**6))
            for j in range(r2.randint(1, 8)):
                p, _ops = mk_pipeline(ns, r2, f"s{case}_{j}", zero_ok=True)
                p._runtime_status = None
                by_tick.setdefault(r2.randint(0, max(0, max_ticks - 1)), []).append(p)
            workload = ListWorkload(by_tick)
        runs += 1
        try:
            stats = sim.run_simulator(dict(params), workload=workload)
            stats.to_dict()
        except Exception as e:
            tb = traceback.format_exc().strip().splitlines()
            kind = "raised:" + type(e).__name__
            if algo == "priority-pool" and not multi and "exactly 1 operator" in str(e):
                kind = "priority-pool-single-operator-mode"
            problems.append({"kind": kind, "case": case, "params": params, "hand_built_workload": workload is not None,
                             "error": repr(e)[:200], "where": tb[-3:-1]})
    kinds = {}
    for pb in problems:
        kinds[pb["kind"]] = kinds.get(pb["kind"], 0) + 1
    first = {}
    for pb in problems:
        first.setdefault(pb["kind"], pb)
    return {"name": "bounded:config-sweep", "ok": not problems, "bounded": f"{n} random valid configurations over 5 schedulers",
            "cases": runs, "kinds": kinds, "finding_kinds": sorted(kinds), "witness": list(first.values())[:3],
            "detail": "every run reached its last tick" if not problems else str(kinds)}


CHILDREN.update({"config_sweep": config_sweep})


# ------------------------------------------------------------------------------------------------
def rest_bridge(repo, seed=0, n=12):
    """C19 bounded: the real REST scheduler with requests.post replaced by an in-process external scheduler that sees only
    the JSON payload (round-tripped through json.dumps/loads).  Every call's payload is compared with the true state, the
    protocol promises are checked call by call, the decisions returned are compared with the reply, and the run's statistics
    are compared with an in-process replay of the same decisions."""
    import json as _json, math, random, copy
    sys.path.insert(0, repo)
    logging.disable(logging.CRITICAL)
    import eudoxia.simulator as sim
    import eudoxia.scheduler.rest as rest
    from eudoxia.scheduler import decorators as dec
    from eudoxia.executor.container import Container
    from eudoxia.executor.assignment import Assignment, Suspend
    from eudoxia.workload.runtime_status import OperatorState
    from eudoxia.utils import Priority
    FORBIDDEN = {"baseline_cpu_seconds", "storage_read_gb", "memory_gb", "segments", "cpu_scaling", "scaling_func", "values"}
    problems = []
    cov = {"calls": 0, "assignments": 0, "suspensions": 0, "pipelines": 0, "reported_complete": 0, "idle_ticks_without_call": 0}
    real_post = rest.requests.post
    real_rest = dec.SCHEDULING_ALGOS["rest"]
    rng = random.Random(seed)

    def forbidden_keys(x, path=""):
        out = []
        if isinstance(x, dict):
            for k, v in x.items():
                if k in FORBIDDEN:
                    out.append(path + "/" + k)
                out += forbidden_keys(v, path + "/" + str(k))
        elif isinstance(x, list):
            for i, v in enumerate(x):
                out += forbidden_keys(v, path + f"[{i}]")
        return out

    for case in range(n):
        tps = rng.choice([1, 10, 100, 400, 1000])
        poll = rng.choice([0.0025, 0.004, 0.29, 0.5, 1.0, 2.0])
        params = dict(duration=rng.choice([20, 60, 150]) if tps <= 10 else rng.choice([2, 6]) if tps <= 100 else rng.choice([0.5, 2]), ticks_per_second=tps,
                      scheduler_algo="rest", num_pools=rng.choice([1, 2]), cpus_per_pool=rng.choice([4, 16]), ram_gb_per_pool=rng.choice([64, 300, 1000]),
                      multi_operator_containers=rng.random() < 0.6, random_seed=rng.randint(0, 10**6), rest_poll_interval=poll,
                      waiting_seconds_mean=rng.choice([0.3, 1.5, 4.0]), num_pipelines=rng.choice([1, 2]), num_operators=rng.choice([2, 4]),
                      interactive_prob=0.3, query_prob=0.3, batch_prob=0.4)
        prng = random.Random(rng.randint(0, 10**6))
        st = {"calls": [], "tick": 0, "seen": {}, "complete_reported": {}, "last_call_tick": None, "decisions": [], "sched": None}

        def policy(payload):
            """external scheduler: sees the JSON only"""
            asg, used = [], set()
            pipes = payload["new_pipelines"] + payload["other_pipelines"]
            for pool in payload["pools"]:
                cpu, ram = pool["avail_cpu"], pool["avail_ram_gb"]
                for _slot in range(3):
                    if cpu < 1 or ram <= 2:
                        break
                    for p in pipes:
                        if p["is_complete"] or p["has_failures"] or p["pipeline_id"] in used:
                            continue
                        ops = p["operators"]
                        if params["multi_operator_containers"] and all(o["state"] == "pending" for o in ops):
                            chosen = ops                                    # the whole untouched pipeline, in DAG order
                        else:
                            chosen = [o for o in ops if o["state"] == "pending" and o["parents_complete"]][:1]
                        if not chosen:
                            continue
                        used.add(p["pipeline_id"])
                        if params["multi_operator_containers"] and prng.random() < 0.35:
                            # one container may mix operators of several pipelines: append another untouched pipeline's operators
                            for p2 in pipes:
                                if p2["pipeline_id"] not in used and not p2["is_complete"] and not p2["has_failures"] \
                                        and all(o["state"] == "pending" for o in p2["operators"]):
                                    chosen = list(chosen) + p2["operators"]
                                    used.add(p2["pipeline_id"])
                                    break
                        c_, r_ = max(1, int(cpu) // prng.choice([1, 2, 4])), ram / prng.choice([1, 2, 3, 4, 7])
                        if ram >= 61:
                            r_ = max(60.5, r_)        # enough for the generator's prototypes most of the time
                        r_ = min(r_, ram * 0.99)      # never the last ulp of the pool: the sum of the shares must stay admissible in floats
                        if c_ + 0.5 <= cpu and prng.random() < 0.4:
                            c_ = c_ + 0.5             # fractional CPU and RAM must arrive exactly as given
                        asg.append({"operator_ids": [o["id"] for o in chosen], "cpu": c_, "ram_gb": r_,
                                    "priority": p["priority"], "pool_id": pool["pool_id"], "is_resume": False, "force_run": False})
                        cpu -= c_; ram -= r_
                        break
            return {"assignments": asg, "suspensions": st.get("pending_suspensions", [])}

        class Resp:
            def __init__(self, data):
                self.data = data
            def raise_for_status(self):
                pass
            def json(self):
                return self.data

        def fake_post(url, json=None, **kw):
            if url.endswith("/init"):
                _json.dumps(json, default=str)
                return Resp({})
            payload = _json.loads(_json.dumps(json))          # what would travel over the wire
            # the true operator states at the moment of the call (parsing the reply changes them: PENDING -> ASSIGNED)
            snap = {}
            for pid_, real in st["seen"].items():
                rs = real.runtime_status()
                snap[pid_] = [(rs.operator_states[o].value, all(rs.operator_states[q] == OperatorState.COMPLETED for q in o.parents)) for o in real.values]
            st["snap"] = snap
            reply = policy(payload)
            st["calls"].append((st["tick"], payload, reply))
            return Resp(_json.loads(_json.dumps(reply)))

        def wrapped(s, results, pipelines):
            st["sched"] = s
            st["tick"] += 1
            for p in pipelines:
                st["seen"][p.pipeline_id] = p
            # admissible suspensions are chosen by the harness from the true state (the external scheduler may send any admissible one)
            st["pending_suspensions"] = []
            if prng.random() < 0.6:
                for pool in s.executor.pools:
                    for c in pool.active_containers:
                        cov["boundary_seen"] = cov.get("boundary_seen", 0) + (1 if c.can_suspend_container() else 0)
                        if c.can_suspend_container() and prng.random() < 0.7:
                            st["pending_suspensions"].append({"container_id": c.container_id, "pool_id": pool.pool_id})
            before = len(st["calls"])
            sus, asg = real_rest(s, results, pipelines)
            called = len(st["calls"]) > before
            t = st["tick"]
            if (pipelines or results) and not called:
                problems.append(("no-call-although-something-arrived-or-finished", case, t))
            if called and not (pipelines or results) and st["last_call_tick"] is not None:
                if (t - st["last_call_tick"]) / tps < poll - 1e-12:
                    problems.append(("idle-call-before-the-poll-interval", case, t, st["last_call_tick"], tps, poll))
            if not called:
                if sus or asg:
                    problems.append(("decisions-without-a-call", case, t))
                st["decisions"].append((t, [], []))
                return sus, asg
            st["last_call_tick"] = t
            _tk, payload, reply = st["calls"][-1]
            fk = forbidden_keys(payload)
            if fk:
                problems.append(("payload-reveals-resource-needs", case, fk[:3]))
            if payload["tick"] != s.current_tick or abs(payload["sim_time_seconds"] - s.current_tick / tps) > 1e-12:
                problems.append(("payload-tick-or-time", case, payload["tick"], s.current_tick))
            # results of the last tick
            want = [{"ops": [str(o.id) for o in r.ops], "cpu": r.cpu, "ram": r.ram, "priority": r.priority.name, "pool_id": r.pool_id,
                     "container_id": r.container_id, "error": r.error} for r in results]
            if payload["results"] != _json.loads(_json.dumps(want)):
                problems.append(("payload-results-differ", case, t))
            # pools and containers
            for pool, pj in zip(s.executor.pools, payload["pools"]):
                truth = {"pool_id": pool.pool_id, "avail_cpu": pool.avail_cpu_pool, "avail_ram_gb": pool.avail_ram_pool, "max_cpu": pool.max_cpu_pool,
                         "max_ram_gb": pool.max_ram_pool, "consumed_ram_gb": pool.consumed_ram_gb}
                for k, v in truth.items():
                    if pj.get(k) != v:
                        problems.append(("payload-pool-figure-differs:" + k, case, t, pj.get(k), v))
                for lst, key in ((pool.active_containers, "active_containers"), (pool.suspending_containers, "suspending_containers"),
                                 (pool.suspended_containers, "suspended_containers")):
                    got = [(c["container_id"], c["cpu"], c["ram_gb"], c["current_memory_gb"], c["priority"], tuple(c["operator_ids"])) for c in pj[key]]
                    exp = [(c.container_id, c.assignment.cpu, c.assignment.ram, c.get_current_memory_usage(), c.priority.name,
                            tuple(str(o.id) for o in c.operators)) for c in lst]
                    if got != exp:
                        problems.append(("payload-container-list-differs:" + key, case, t))
            if len(payload["pools"]) != len(s.executor.pools):
                problems.append(("payload-pool-count", case, t))
            # pipelines: new and other disjoint, operator states true, completion reported once
            new_ids = [p["pipeline_id"] for p in payload["new_pipelines"]]
            other_ids = [p["pipeline_id"] for p in payload["other_pipelines"]]
            if set(new_ids) & set(other_ids) or len(set(new_ids)) != len(new_ids) or len(set(other_ids)) != len(other_ids):
                problems.append(("new-and-known-pipelines-overlap", case, t))
            if sorted(new_ids) != sorted(p.pipeline_id for p in pipelines):
                problems.append(("new-pipelines-not-the-arrivals", case, t))
            for pj in payload["new_pipelines"] + payload["other_pipelines"]:
                real = st["seen"].get(pj["pipeline_id"])
                if real is None:
                    problems.append(("unknown-pipeline-in-payload", case, t)); continue
                rs = real.runtime_status()
                ops = list(real.values)
                if [o["id"] for o in pj["operators"]] != [str(o.id) for o in ops]:
                    problems.append(("payload-operators-differ", case, t)); continue
                for oj, (sv, pc) in zip(pj["operators"], st["snap"][pj["pipeline_id"]]):
                    if oj["state"] != sv or oj["parents_complete"] != pc:
                        problems.append(("payload-operator-state-differs", case, t, oj["state"], sv))
                done = all(sv == OperatorState.COMPLETED.value for sv, _pc in st["snap"][pj["pipeline_id"]])
                if pj["is_complete"] != done or pj["priority"] != real.priority.name:
                    problems.append(("payload-pipeline-flags-differ", case, t))
                if pj["is_complete"]:
                    st["complete_reported"][pj["pipeline_id"]] = st["complete_reported"].get(pj["pipeline_id"], 0) + 1
                    if st["complete_reported"][pj["pipeline_id"]] > 1:
                        problems.append(("completed-pipeline-reported-again", case, t, pj["pipeline_id"]))
            # every incomplete pipeline seen so far must still be told to the scheduler
            for pid_, real in st["seen"].items():
                done = all(v == OperatorState.COMPLETED for v in real.runtime_status().operator_states.values())
                if not done and pid_ not in new_ids and pid_ not in other_ids:
                    problems.append(("unfinished-pipeline-missing-from-payload", case, t, pid_))
            # decisions executed exactly as given
            if len(sus) != len(reply["suspensions"]) or any((x.container_id, x.pool_id) != (y["container_id"], y["pool_id"]) for x, y in zip(sus, reply["suspensions"])):
                problems.append(("suspensions-not-as-given", case, t))
            if len(asg) != len(reply["assignments"]):
                problems.append(("assignments-not-as-given", case, t))
            for a, y in zip(asg, reply["assignments"]):
                if ([str(o.id) for o in a.ops], a.cpu, a.ram, a.priority.name, a.pool_id, a.is_resume, a.force_run) != \
                        (y["operator_ids"], y["cpu"], y["ram_gb"], y["priority"], y["pool_id"], y["is_resume"], y["force_run"]):
                    problems.append(("assignments-not-as-given", case, t))
            # record for the in-process replay: operators by (pipeline id, position)
            rec = []
            for a in asg:
                pos = [(o.pipeline.pipeline_id, list(o.pipeline.values).index(o)) for o in a.ops]
                rec.append((a.ops[0].pipeline.pipeline_id, pos, a.cpu, a.ram, a.priority, a.pool_id, a.is_resume, a.force_run))
            st["decisions"].append((t, [(x.container_id, x.pool_id) for x in sus], rec))
            return sus, asg

        rest.requests.post = fake_post
        dec.SCHEDULING_ALGOS["rest"] = wrapped
        Container.next_container_num = 1
        try:
            try:
                stats1 = sim.run_simulator(dict(params))
            except Exception as e:
                problems.append(("rest-run-raised", case, repr(e)[:200]))
                continue
        finally:
            rest.requests.post = real_post
            dec.SCHEDULING_ALGOS["rest"] = real_rest
        for pid_, real in st["seen"].items():
            done = all(v == OperatorState.COMPLETED for v in real.runtime_status().operator_states.values())
            # a pipeline that completed before the last call must have been reported complete exactly once
            if done and st["complete_reported"].get(pid_, 0) > 1:
                problems.append(("completed-pipeline-reported-again", case, pid_))
        # ---- the same decisions made by an in-process scheduler ------------------------------------------
        decisions = {t: (sus, rec) for t, sus, rec in st["decisions"]}
        rp = {"tick": 0, "seen": {}}

        def replay_init(s):
            pass

        def replay(s, results, pipelines):
            rp["tick"] += 1
            for p in pipelines:
                rp["seen"][p.pipeline_id] = p
            sus, rec = decisions.get(rp["tick"], ([], []))
            out = []
            for pid_, pos, cpu, ram, prio, pool_id, is_resume, force_run in rec:
                out.append(Assignment(ops=[list(rp["seen"][q].values)[i] for q, i in pos], cpu=cpu, ram=ram, priority=prio, pool_id=pool_id, pipeline_id=pid_,
                                      is_resume=is_resume, force_run=force_run))
            return [Suspend(cid, pl) for cid, pl in sus], out
        dec.SCHEDULING_ALGOS["replay-c19"] = replay
        dec.INIT_ALGOS["replay-c19"] = replay_init
        Container.next_container_num = 1
        try:
            stats2 = sim.run_simulator(dict(params, scheduler_algo="replay-c19"))
        except Exception as e:
            problems.append(("in-process-replay-raised", case, repr(e)[:200]))
            continue
        finally:
            dec.SCHEDULING_ALGOS.pop("replay-c19", None)
            dec.INIT_ALGOS.pop("replay-c19", None)
        d1, d2 = _json.dumps(stats1.to_dict(), sort_keys=True), _json.dumps(stats2.to_dict(), sort_keys=True)
        if d1 != d2:
            problems.append(("statistics-differ-from-in-process-run", case, d1[:150], d2[:150]))
        cov["calls"] += len(st["calls"])
        cov["assignments"] += sum(len(r) for _t, _s, r in st["decisions"])
        cov["suspensions"] += sum(len(x) for _t, x, _r in st["decisions"])
        cov["pipelines"] += len(st["seen"])
        cov["reported_complete"] += len(st["complete_reported"])
        cov["idle_ticks_without_call"] += sum(1 for _t, x, r in st["decisions"] if not x and not r) 
        st["calls"].clear()
    kinds = {}
    for pb in problems:
        kinds[pb[0]] = kinds.get(pb[0], 0) + 1
    first = {}
    for pb in problems:
        first.setdefault(pb[0], pb)
    return {"name": "bounded:rest-bridge", "exercised": cov, "ok": not problems, "bounded": f"{n} runs of the real REST scheduler against an in-process external scheduler (HTTP layer replaced)",
            "cases": n, "kinds": kinds, "finding_kinds": sorted(kinds), "witness": [list(map(str, p))[:6] for p in list(first.values())[:3]],
            "detail": "payloads truthful, protocol promises kept, decisions executed as given, statistics equal the in-process run" if not problems else str(kinds)}


CHILDREN.update({"rest_bridge": rest_bridge})


# ------------------------------------------------------------------------------------------------
def get_pool_exhaustive(repo, max_pools=3):
    """C12/C08 bounded: the real get_pool_with_max_avail_ram on every snapshot of <= 3 pools with free CPU in {0, 1, 4}
    and free RAM in {0, 0.5, 8} (incl. equal values): -1 exactly when no pool has free CPU and free RAM, otherwise a pool
    with free CPU and free RAM that has the most free RAM among the pools with free CPU."""
    import itertools, types
    sys.path.insert(0, repo)
    logging.disable(logging.CRITICAL)
    from eudoxia.scheduler import priority
    problems, n = [], 0
    for k in range(0, max_pools + 1):
        for combo in itertools.product(itertools.product([0, 1, 4], [0, 0.5, 8]), repeat=k):
            n += 1
            stats = {i: {"avail_cpu": c, "avail_ram": r, "total_cpu": 8, "total_ram": 16} for i, (c, r) in enumerate(combo)}
            s = types.SimpleNamespace(executor=types.SimpleNamespace(num_pools=k))
            try:
                got = priority.get_pool_with_max_avail_ram(s, stats)
            except Exception as e:
                problems.append(("raised", list(combo), repr(e)[:100])); continue
            usable = [i for i, (c, r) in enumerate(combo) if c > 0 and r > 0]
            if not usable:
                if got != -1:
                    problems.append(("pool-chosen-although-none-has-free-cpu-and-ram", list(combo), got))
            elif got not in usable:
                problems.append(("chosen-pool-without-free-cpu-or-ram" if got != -1 else "no-pool-although-one-is-usable", list(combo), got))
            elif any(combo[i][1] > combo[got][1] for i in range(k) if combo[i][0] > 0):
                problems.append(("not-the-most-free-ram", list(combo), got))
    kinds = {}
    for pb in problems:
        kinds[pb[0]] = kinds.get(pb[0], 0) + 1
    first = {}
    for pb in problems:
        first.setdefault(pb[0], pb)
    return {"name": "bounded:get-pool-exhaustive", "ok": not problems, "bounded": f"all snapshots of <= {max_pools} pools over 3 x 3 figures", "cases": n,
            "kinds": kinds, "finding_kinds": sorted(kinds), "witness": [list(map(str, p)) for p in first.values()][:3],
            "detail": "as specified" if not problems else str(kinds)}


CHILDREN.update({"get_pool_exhaustive": get_pool_exhaustive})

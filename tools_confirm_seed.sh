#!/bin/bash
# usage: tools_confirm_seed.sh <PROP> <i> [<dest index>] : confirm a sub-agent's change in its scratch worktree and file it under /verif/seeded
P=$1; i=$2; D=${3:-$2}; WT=/tmp/wt/$P; OUT=/tmp/wt/${P}_out
cd $WT || exit 9
git checkout -q -- . ; git clean -qfd
clean=$(PYTHONPATH=$WT /venv/bin/python $OUT/demo_$i.py >/dev/null 2>&1; echo $?)
git apply $OUT/change_$i.diff || { echo "$P-$i APPLY-FAILED"; exit 9; }
imp=$(PYTHONPATH=$WT /venv/bin/python -c "import logging; logging.disable(logging.CRITICAL); import eudoxia, eudoxia.simulator, eudoxia.tools; print('ok')" 2>&1 | tail -1)
mut=$(PYTHONPATH=$WT /venv/bin/python $OUT/demo_$i.py >/tmp/wt/${P}_demo_$i.out 2>&1; echo $?)
tests=$(PYTHONPATH=$WT timeout 900 /venv/bin/python -m pytest -q -p no:cacheprovider --timeout=900 2>&1 | tail -1)
git checkout -q -- . ; git clean -qfd
echo "$P-$i demo_clean_rc=$clean demo_mut_rc=$mut import=$imp tests='$tests'"
if [ "$clean" = "0" ] && [ "$mut" != "0" ] && echo "$tests" | grep -q "51 passed"; then
  d=/verif/seeded/$P-$D; mkdir -p $d
  cp $OUT/change_$i.diff $d/patch.diff; cp $OUT/demo_$i.py $d/demo.py; cp $OUT/note_$i.txt $d/note.txt
  /venv/bin/python - "$P" "$D" "$tests" <<'PY'
import json, sys
P, i, tests = sys.argv[1], sys.argv[2], sys.argv[3]
note = open(f"/verif/seeded/{P}-{i}/note.txt").read()
json.dump({"property": P, "needs_to_manifest": note.strip()[:900],
           "confirmed": {"worktree": f"/tmp/wt/{P} (scratch, removed afterwards)", "demo_on_clean_tree": "exit 0 (PASS)",
                         "demo_with_patch": "non-zero exit", "test_suite_with_patch": tests,
                         "commands": ["git apply patch.diff", "PYTHONPATH=<tree> /venv/bin/python demo.py", "PYTHONPATH=<tree> /venv/bin/python -m pytest -q -p no:cacheprovider --timeout=900"]},
           "source": "independent sub-agent given only the property text and a scratch worktree"},
          open(f"/verif/seeded/{P}-{i}/meta.json", "w"), indent=1)
PY
fi

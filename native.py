"""Native replay / bounded stand-in: runs the REAL code of the repository under the contract monitors.

search(pid, failed_items, repo, seed): looks for a concrete input (scenario, seed) on which a clause tagged
with the property (or the clause of a failed obligation) is violated by the real code.  Runs in a child
process so that the monitored modules never leak into the checker."""
from __future__ import annotations
import json
import os
import subprocess
import sys
import time

HERE = os.path.dirname(os.path.abspath(__file__))

PROP_SCENARIOS = {
    "C01": ["status", "container", "pool"], "C02": ["status", "twins", "pool", "executor"], "C03": ["pool", "twins", "executor"],
    "C04": ["pool", "killer", "container", "twins"], "C05": ["container", "pool"], "C09": ["executor", "pool", "twins"],
    "C10": ["twins", "pool", "executor"], "C11": ["killer", "pool"],
    "C16": ["sim-priority-pool"], "C17": ["sim-naive"], "C18": ["sim-overbook"], "C12": ["sim-priority", "sim-priority-burst", "sim-priority-pool"],
    "C08": ["sim"],
}


FOCUSED = {"C12", "C08", "C16"}


def search(pid, failed_items, repo, seed, budget_s=90, n_seeds=400, procs=12):
    """parallel bounded search: `procs` child processes, each with its own seed range"""
    want = [it["obligation"] for it in failed_items]
    env = dict(os.environ, PYTHONPATH=os.pathsep.join([os.path.join(HERE, ".deps"), HERE]))
    children = []
    for i in range(procs):
        cmd = [sys.executable, os.path.join(HERE, "native.py"), "--child", pid, repo, str(seed * 1000 + i), str(budget_s), str(n_seeds), json.dumps(want)]
        children.append(subprocess.Popen(cmd, stdout=subprocess.PIPE, stderr=subprocess.PIPE, text=True, env=env))
    results, errors = [], []
    deadline = time.time() + budget_s + 60
    for ch in children:
        try:
            out, err = ch.communicate(timeout=max(1, deadline - time.time()))
            line = [l for l in out.splitlines() if l.startswith("RESULT ")]
            if line:
                results.append(json.loads(line[-1][7:]))
            else:
                errors.append((err or out)[-400:])
        except Exception as e:  # pragma: no cover
            ch.kill()
            errors.append(repr(e))
    found = [r for r in results if r.get("found")]
    total_runs = sum(r.get("scenario_runs", 0) for r in results)
    stats = {}
    for r in results:
        for k, v in r.get("monitor_stats", {}).items():
            stats[k] = stats.get(k, 0) + v
    base = found[0] if found else (results[0] if results else {"found": False})
    base = dict(base, scenario_runs=total_runs, monitor_stats=stats, processes=procs)
    if errors and not results:
        base["error"] = errors[0]
    return base


def run_scenarios(pid, repo, seed, budget_s, n_seeds, want=(), stop_at_first=True, scenarios=None):
    import importlib
    sys.path.insert(0, HERE)
    from pyvc import cli
    from pyvc.native_monitor import Monitor
    from pyvc import native_scenarios as NS
    S = cli.load_spec()
    mon = Monitor(S, repo)
    if pid in FOCUSED:
        # scheduler-level properties: install only the monitors that carry the property (the executor's own contracts
        # are exercised by the other properties' runs), which makes a scenario ~20x cheaper
        mon.install([q for q, c in S.fns.items() if pid in c.owners or any(pid in (t or "") for t in [str(c.native_ensures), str(c.ensures)])])
    else:
        mon.install()
    t0 = time.time()
    hits = []
    names = scenarios or PROP_SCENARIOS.get(pid, list(NS.SCENARIOS))
    runs = 0
    for k in range(n_seeds):
        for sc in names:
            if time.time() - t0 > budget_s:
                break
            sd = seed * 100003 + k
            mon.violations = []
            try:
                NS.SCENARIOS[sc](mon, sd)
            except Exception as e:
                mon.violations.append({"obligation": f"scenario:{sc}:crash", "clause": f"{type(e).__name__}: {e}", "tags": [], "args": {}})
            runs += 1
            for v in mon.violations:
                rel = (pid in v["tags"]) or (v["obligation"] in want) or not v["tags"]
                if v["obligation"].endswith(":crash") and not want:
                    rel = False
                if rel:
                    hits.append(dict(v, scenario=sc, seed=sd))
            if hits and stop_at_first:
                break
        if hits and stop_at_first:
            break
    mon.uninstall()
    return {"found": bool(hits), "witnesses": hits[:3], "scenario_runs": runs, "scope": NS.SCOPE, "monitor_stats": mon.stats,
            "how": "python native.py --replay <scenario> <seed>  (re-runs the real code with the contract monitors installed)"}


if __name__ == "__main__":
    if sys.argv[1] == "--child":
        pid, repo, seed, budget, n_seeds, want = sys.argv[2], sys.argv[3], int(sys.argv[4]), float(sys.argv[5]), int(sys.argv[6]), json.loads(sys.argv[7])
        res = run_scenarios(pid, repo, seed, budget, n_seeds, want)
        print("RESULT " + json.dumps(res))
    elif sys.argv[1] == "--replay":
        sc, sd = sys.argv[2], int(sys.argv[3])
        sys.path.insert(0, HERE)
        from pyvc import cli
        from pyvc.native_monitor import Monitor
        from pyvc import native_scenarios as NS
        mon = Monitor(cli.load_spec(), os.environ.get("VERIF_REPO", "/repo"))
        mon.install()
        NS.SCENARIOS[sc](mon, sd)
        print(json.dumps(mon.violations, indent=1))
        sys.exit(1 if mon.violations else 0)
    elif sys.argv[1] == "--validate":
        # contracts as monitors over many scenarios on the current tree: nothing may fire
        res = run_scenarios("*", os.environ.get("VERIF_REPO", "/repo"), int(sys.argv[2]) if len(sys.argv) > 2 else 1,
                            float(sys.argv[3]) if len(sys.argv) > 3 else 60, 10**6, stop_at_first=False,
                            scenarios=["status", "container", "killer", "pool", "executor", "twins"])
        print(json.dumps(res, indent=1)[:6000])

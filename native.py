"""Native replay: bounded searches that run the REAL code of /repo looking for an input that breaks the
clause behind a failed obligation.  Filled in per property (see native_* modules)."""
from __future__ import annotations


def search(pid, failed_items, repo, seed):
    return {"found": False, "note": "no native search registered for this obligation"}

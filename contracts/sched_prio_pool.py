"""Contracts for the priority-pool scheduler (C16, C08)."""
from pyvc.ty import *  # noqa
from pyvc.spec import Spec

MPP = "eudoxia.scheduler.priority_pool"
Prio = Enum("Priority")


def declare(S: Spec):
    S.cls("RetryStats", {"old_ram": REAL, "old_cpu": REAL, "error": Opt(STR), "container_id": STR, "pool_id": INT},
          immutable=("old_ram", "old_cpu", "error", "container_id", "pool_id"))
    S.cls("WaitingQueueJob", {"priority": Prio, "pipeline": Ref("Pipeline"), "ops": List(Ref("Operator")), "retry_stats": Ref("RetryStats")},
          immutable=("priority", "pipeline", "ops", "retry_stats"))
    S.cls("Scheduler", {"qry_jobs": List(Ref("WaitingQueueJob")), "interactive_jobs": List(Ref("WaitingQueueJob")),
                        "batch_ppln_jobs": List(Ref("WaitingQueueJob")), "suspending": Dict(STR, Ref("WaitingQueueJob")),
                        "oom_failed_to_run": INT})
    # iterating a pipeline's DAG yields its operators (the order/uniqueness part is C01 clause c)
    S.fn("list_of:DAG", params={}, returns=List(Ref("Operator")),
         requires=[],
         ensures=["result is not None and fresh(result)", "all(op is not None for op in result)"],
         modifies=[], allocates=True,
         note="assumed: list(DAG) returns the DAG's nodes (topological iteration is decided under C01)")
    S.fns["list_of:DAG"].trusted = True

    S.fns["list_of:DAG"].ensures.append("all(any(self.node_lookup[k] is op for k in keys(self.node_lookup)) for op in result)")
    S.fns["list_of:DAG"].ensures_labels.append("")

    S.pred("JobOK", [("j", Ref("WaitingQueueJob"))], "j is not None")
    S.pred("PPQueues", [("s", Ref("Scheduler"))],
           "s.qry_jobs is not None and s.interactive_jobs is not None and s.batch_ppln_jobs is not None and s.suspending is not None"
           " and s.qry_jobs is not s.interactive_jobs and s.qry_jobs is not s.batch_ppln_jobs and s.interactive_jobs is not s.batch_ppln_jobs"
           " and all(JobOK(j) and j.priority == Priority.QUERY for j in s.qry_jobs)"
           " and all(JobOK(j) and j.priority == Priority.INTERACTIVE for j in s.interactive_jobs)"
           " and all(JobOK(j) and j.priority == Priority.BATCH_PIPELINE for j in s.batch_ppln_jobs)"
           " and all(JobOK(s.suspending[k]) for k in keys(s.suspending))")
    # C16: latency-sensitive work on pool 0, batch work on pool 1
    S.pred("PoolOfPriority", [("a", Ref("Assignment"))],
           "implies(a.priority == Priority.QUERY or a.priority == Priority.INTERACTIVE, a.pool_id == 0)"
           " and implies(a.priority == Priority.BATCH_PIPELINE, a.pool_id == 1)")
    S.pred("ClassOfPool", [("q", SeqV(Ref("WaitingQueueJob"))), ("pool_id", INT)],
           "all(JobOK(j) and implies(pool_id == 0, j.priority == Priority.QUERY or j.priority == Priority.INTERACTIVE)"
           " and implies(pool_id == 1, j.priority == Priority.BATCH_PIPELINE) for j in q)")
    S.pred("PipeNodesOK", [("p", Ref("Pipeline"))],
           "p is not None and p.values is not None and p.values.node_lookup is not None"
           " and all(WFop(p.values.node_lookup[k]) for k in keys(p.values.node_lookup))")

    Q = ["PPQueues(s)"]
    A = "all(a is not None and PoolOfPriority(a) for a in new_assignments)"
    PQ = ("0 in pool_queues and 1 in pool_queues and seq(pool_queues[0]) == [s.qry_jobs, s.interactive_jobs]"
          " and seq(pool_queues[1]) == [s.batch_ppln_jobs]")
    S.fn(f"{MPP}:priority_pool_scheduler", owners=["C16", "C08"],
         params={"s": Ref("Scheduler"), "results": List(Ref("ExecutionResult")), "pipelines": List(Ref("Pipeline"))},
         returns=Tuple(List(Ref("Suspend")), List(Ref("Assignment"))),
         requires=["s is not None and results is not None and pipelines is not None", "PPQueues(s)",
                   "ExecShape(s.executor) and s.executor.num_pools == 2"],
         ensures=[("never-suspends", "result[0] is not None and len(result[0]) == 0"),
                  ("pool-by-priority", "all(a is not None and PoolOfPriority(a) for a in result[1])"),
                  ("queue-classes-kept", "PPQueues(s)")],
         variants={"eudoxia.executor.assignment:Assignment.__init__": "eudoxia.executor.assignment:Assignment.__init__#shape",
                   "eudoxia.workload.pipeline:Pipeline.runtime_status": "eudoxia.workload.pipeline:Pipeline.runtime_status#any"},
         raises={"Exception": []},
         modifies=["star('*')"], allocates=True,
         locals={"failures": List(Ref("ExecutionResult")), "ops": List(Ref("Operator")), "pool_stats": Dict(INT, Dict(STR, REAL)),
                 "new_assignments": List(Ref("Assignment")), "to_remove": List(Ref("WaitingQueueJob")), "to_start": List(Ref("Assignment")),
                 "suspensions": List(Ref("Suspend")), "queues": List(List(Ref("WaitingQueueJob"))),
                 "pool_queues": Dict(INT, List(List(Ref("WaitingQueueJob"))))},
         loops={0: dict(idx="k", header="for p in pipelines", inv=Q),
                1: dict(idx="k", header="for f in failures", inv=Q),
                2: dict(idx="k", header="for pool_id in range(s.executor.num_pools)", inv=Q),
                3: dict(idx="k", header="for c in s.executor.pools[pool_id].suspending_containers",
                        inv=Q + ["0 <= pool_id and pool_id < 2"]),
                4: dict(idx="k", header="for pool_id in range(s.executor.num_pools)", inv=Q),
                5: dict(idx="k", header="for container in s.executor.pools[pool_id].suspended_containers", inv=Q),
                6: dict(idx="k", header="for i in range(s.executor.num_pools)", inv=Q),
                7: dict(idx="k", header="for pool_id in range(s.executor.num_pools)", inv=Q + [A, PQ, "k <= 2"]),
                8: dict(idx="k8", header="for queue in queues",
                        inv=Q + [A, PQ, "queues is pool_queues[pool_id]", "0 <= pool_id and pool_id < 2"]),
                9: dict(idx="k9", header="for job in queue",
                        inv=Q + [A, PQ, "queues is pool_queues[pool_id]", "0 <= pool_id and pool_id < 2",
                                 "ClassOfPool(seq(queue), pool_id)",
                                 "all(a is not None and a.pool_id == pool_id and PoolOfPriority(a) for a in to_start)",
                                 "all(j in queue for j in to_remove)"]),
                10: dict(idx="k", header="for j in to_start",
                         inv=Q + [A, PQ, "queues is pool_queues[pool_id]", "0 <= pool_id and pool_id < 2",
                                  "all(a is not None and a.pool_id == pool_id and PoolOfPriority(a) for a in to_start)"]),
                11: dict(idx="k", header="for j in to_remove",
                         inv=Q + [A, PQ, "queues is pool_queues[pool_id]", "0 <= pool_id and pool_id < 2"]),
                12: dict(idx="k", header="for a in new_assignments", inv=[])})


def declare4(S: Spec):
    """monitor-only clauses of the priority-pool scheduler (bounded; the retry clauses are not discharged deductively)"""
    c = S.fns[f"{MPP}:priority_pool_scheduler"]
    S.pred("PPHalfOrMore", [("s", Ref("Scheduler")), ("f", Ref("ExecutionResult"))],
           "(f.priority != Priority.BATCH_PIPELINE and (rdiv(2 * f.cpu, s.executor.pools[0].max_cpu_pool) >= 0.5"
           " or rdiv(2 * f.ram, s.executor.pools[0].max_ram_pool) >= 0.5))"
           " or (f.priority == Priority.BATCH_PIPELINE and (rdiv(2 * f.cpu, s.executor.pools[1].max_cpu_pool) >= 0.5"
           " or rdiv(2 * f.ram, s.executor.pools[1].max_ram_pool) >= 0.5))")
    UNF = "[op for op in f.ops if op.pipeline._runtime_status.operator_states[op] != OperatorState.COMPLETED]"
    c.native_ensures += [
        ("after-an-oom-exactly-the-unfinished-operators-are-retried-together",
         f"C16| all(implies(f.error is not None, any(j.ops == {UNF} for j in s.qry_jobs) or any(j.ops == {UNF} for j in s.interactive_jobs)"
         f" or any(j.ops == {UNF} for j in s.batch_ppln_jobs) or any(a.ops == {UNF} for a in result[1]) or PPHalfOrMore(s, f)) for f in results)"),
        ("a-retry-reaching-half-of-the-pool-is-abandoned",
         f"C16| all(implies(f.error is not None and PPHalfOrMore(s, f), not any(a.ops == {UNF} for a in result[1])) for f in results)"),
        ("retries-stay-in-their-pool",
         "C16| all(implies(a.priority == Priority.BATCH_PIPELINE, a.pool_id == 1) and implies(a.priority != Priority.BATCH_PIPELINE, a.pool_id == 0) for a in result[1])"),
    ]


def prepare(prog):
    """one iteration of `for job in queue:` of priority_pool_scheduler (placement of one waiting job on the class's pool)"""
    import ast
    from pyvc.extract import extract_loop_body
    pred = lambda n: ast.unparse(n.target) == "job" and ast.unparse(n.iter) == "queue"
    return extract_loop_body(prog, f"{MPP}:priority_pool_scheduler", "pp_place_job", pred, ["s", "job", "pool_stats", "pool_id", "to_remove", "to_start"])


def declare3(S: Spec):
    MA = "eudoxia.executor.assignment"
    MP = "eudoxia.workload.pipeline"
    PSTATS = Dict(INT, Dict(STR, REAL))
    S.pred("PPStats", [("ps", PSTATS), ("i", INT)],
           "ps is not None and i in ps and ps[i] is not None and 'avail_cpu' in ps[i] and 'avail_ram' in ps[i] and 'total_cpu' in ps[i] and 'total_ram' in ps[i]"
           " and ps[i]['total_cpu'] > 0 and ps[i]['total_ram'] > 0")
    # what the scheduler's own assertion needs: a pool runs out of CPU and RAM together
    S.pred("BothOrNone", [("ps", PSTATS), ("i", INT)],
           "ps[i]['avail_cpu'] >= 0 and ps[i]['avail_ram'] >= 0 and (ps[i]['avail_cpu'] == 0) == (ps[i]['avail_ram'] == 0)")
    LAST = "to_start[len(to_start) - 1]"
    S.fn(f"{MPP}:pp_place_job", owners=["C08", "C16"],
         params={"s": Ref("Scheduler"), "job": Ref("WaitingQueueJob"), "pool_stats": PSTATS, "pool_id": INT,
                 "to_remove": List(Ref("WaitingQueueJob")), "to_start": List(Ref("Assignment"))},
         returns=STR,
         locals={"avail_ram": REAL, "avail_cpu": REAL, "op_list": List(Ref("Operator")), "rs": Ref("RetryStats"), "job_cpu": REAL, "job_ram": REAL,
                 "cpu_ratio": REAL, "ram_ratio": REAL, "asgmnt": Ref("Assignment")},
         requires=["s is not None", "PPStats(pool_stats, pool_id)", "BothOrNone(pool_stats, pool_id)",
                   "job is not None and job.ops is not None and implies(job.retry_stats is not None, job.retry_stats.old_cpu > 0 and job.retry_stats.old_ram > 0)",
                   "to_remove is not None and to_start is not None"],
         ensures=[("a-pool-runs-out-of-cpu-and-ram-together", "BothOrNone(pool_stats, pool_id)"),
                  ("stops-only-when-the-pool-is-empty", "(result == 'break') == (old(pool_stats[pool_id]['avail_cpu']) == 0)"),
                  ("a-stopped-round-changes-nothing", "implies(result == 'break', len(to_start) == old(len(to_start)) and len(to_remove) == old(len(to_remove)))"),
                  ("at-most-one-container-per-job", "len(to_start) == old(len(to_start)) or len(to_start) == old(len(to_start)) + 1"),
                  ("only-a-retry-after-an-error-is-dropped",
                   "implies(result == 'continue', len(to_start) == old(len(to_start)) and job.retry_stats is not None and job.retry_stats.error is not None"
                   " and (rdiv(2 * job.retry_stats.old_cpu, pool_stats[pool_id]['total_cpu']) >= 0.5 or rdiv(2 * job.retry_stats.old_ram, pool_stats[pool_id]['total_ram']) >= 0.5))"),
                  ("a-retry-reaching-half-of-the-pool-is-abandoned",
                   "implies(job.retry_stats is not None and job.retry_stats.error is not None and old(pool_stats[pool_id]['avail_cpu']) != 0 and"
                   " (rdiv(2 * job.retry_stats.old_cpu, pool_stats[pool_id]['total_cpu']) >= 0.5 or rdiv(2 * job.retry_stats.old_ram, pool_stats[pool_id]['total_ram']) >= 0.5),"
                   " result == 'continue')"),
                  ("the-container-fits-the-snapshot-and-is-charged-to-it",
                   f"implies(len(to_start) == old(len(to_start)) + 1, {LAST}.ops is job.ops and {LAST}.priority == job.priority and {LAST}.pool_id == pool_id"
                   f" and {LAST}.cpu > 0 and {LAST}.ram > 0 and {LAST}.cpu <= old(pool_stats[pool_id]['avail_cpu']) and {LAST}.ram <= old(pool_stats[pool_id]['avail_ram'])"
                   f" and pool_stats[pool_id]['avail_cpu'] == old(pool_stats[pool_id]['avail_cpu']) - {LAST}.cpu"
                   f" and pool_stats[pool_id]['avail_ram'] == old(pool_stats[pool_id]['avail_ram']) - {LAST}.ram)")],
         raises={"Exception": ["old(pool_stats[pool_id]['avail_cpu']) != 0 and old(pool_stats[pool_id]['avail_ram']) != 0"]},
         modifies=["star('*')"], allocates=True,
         variants={f"{MA}:Assignment.__init__": f"{MA}:Assignment.__init__#shape", f"{MP}:Pipeline.runtime_status": f"{MP}:Pipeline.runtime_status#any"},
         note="an exception can only come from the Assignment constructor (after the empty-pool test passed): the scheduler's own "
              "'invalid pool' assertion cannot fire.  One iteration of the job loop of priority_pool_scheduler, extracted (continue/break of that loop become return values)")

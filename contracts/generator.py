"""Contracts for eudoxia/workload/workload.py WorkloadGenerator (C15).

numpy draws are arbitrary values of their support (A-RNG): `normal` returns any real.  What is proved is what holds
for every such value: the timing arithmetic, the wait/emit protocol of run_one_tick and the prototype selection."""
import ast
from pyvc.ty import *  # noqa
from pyvc.spec import Spec

MW = "eudoxia.workload.workload"
MP = "eudoxia.workload.pipeline"


def prepare(prog):
    """the timing part of WorkloadGenerator.__init__ (from `self.ticks_per_second = ...` to `self.curr_waiting_ticks = 0`)"""
    from pyvc.extract import extract_block
    is_start = lambda s: isinstance(s, ast.Assign) and ast.unparse(s.targets[0]) == "self.ticks_per_second"
    state = {"done": False}
    def belongs(s):
        if state["done"]:
            return False
        if isinstance(s, ast.Assign) and ast.unparse(s.targets[0]) == "self.curr_waiting_ticks":
            state["done"] = True
        return isinstance(s, ast.Assign) and ast.unparse(s.targets[0]).startswith("self.")
    q, stmts = extract_block(prog, f"{MW}:WorkloadGenerator.__init__", "gen_timing_init", is_start, belongs,
                             ["self", "waiting_seconds_mean", "ticks_per_second"], "None")
    try:
        prepare_knobs(prog)
    except KeyError:
        pass        # gen_knobs_init is then reported as unreachable on its own
    try:
        prepare_segment_fields(prog)
    except KeyError:
        pass        # Segment.fields.__init__ is then reported as unreachable on its own
    return q, stmts


SEG_FIELDS = ("baseline_cpu_seconds", "memory_gb", "storage_read_gb")


def prepare_segment_fields(prog):
    """the top-level plain assignments of Segment.__init__ to the three fields (and to plain local names), in order, as a constructor `Segment.fields.__init__(self, baseline_cpu_seconds, memory_gb, storage_read_gb)`.
    Dropped: the selection of scaling_func from cpu_scaling and the refusal of an unknown law name (not about these fields;
    the extraction refuses if a dropped statement stores to one of the three fields or rebinds one of the three parameters)."""
    from pyvc.extract import register_block, stores_of
    fn = prog.func(f"{MP}:Segment.__init__")
    kept = []
    for st in fn.body:
        tgt = None
        if isinstance(st, ast.Assign) and len(st.targets) == 1:
            tgt = st.targets[0]
        elif isinstance(st, ast.AnnAssign) and st.value is not None:
            tgt = st.target
        if isinstance(tgt, ast.Attribute) and isinstance(tgt.value, ast.Name) and tgt.value.id == "self" and tgt.attr in SEG_FIELDS:
            kept.append(st)
            continue
        if isinstance(tgt, ast.Name):
            kept.append(st)      # a top-level local (or a rebound parameter) the field assignments may read: executed as written
            continue
        names, _other = stores_of(st)
        fields = {x.attr for x in ast.walk(st) if isinstance(x, ast.Attribute) and isinstance(x.ctx, (ast.Store, ast.Del))}
        if (names | fields) & set(SEG_FIELDS):
            raise KeyError(f"{MP}:Segment.__init__: a statement other than a plain top-level assignment writes a segment field or rebinds "
                           f"its parameter (contract attachment lost)")
    if not any(isinstance(x, ast.Attribute) and isinstance(x.ctx, ast.Store) for st in kept for x in ast.walk(st)):
        raise KeyError(f"{MP}:Segment.__init__: no assignment to the segment fields (contract attachment lost)")
    return register_block(prog, f"{MP}:Segment.__init__", "Segment.fields.__init__", kept, ["self"] + list(SEG_FIELDS), "None")


KNOBS = ("cpu_io_ratio", "num_pipelines", "num_operators")


def prepare_knobs(prog):
    """the statements of WorkloadGenerator.__init__ that mention one of the plain parameters cpu_io_ratio / num_pipelines /
    num_operators (assignments, asserts), in order, as gen_knobs_init(self, cpu_io_ratio, num_pipelines, num_operators).
    The statements in between are dropped; the extraction refuses if one of them binds such a name or writes such a field
    (calls in dropped statements are assumed not to touch these three fields)."""
    from pyvc.extract import register_block
    fn = prog.func(f"{MW}:WorkloadGenerator.__init__")
    kept = []
    for st in fn.body:
        names = {x.id for x in ast.walk(st) if isinstance(x, ast.Name)} | {x.attr for x in ast.walk(st) if isinstance(x, ast.Attribute)}
        if names & set(KNOBS):
            if not isinstance(st, (ast.Assign, ast.AugAssign, ast.AnnAssign, ast.Assert)):
                raise KeyError(f"{MW}:WorkloadGenerator.__init__: a compound statement mentions a generator knob (contract attachment lost)")
            kept.append(st)
    if not kept:
        raise KeyError(f"{MW}:WorkloadGenerator.__init__: no statement mentions the generator knobs (contract attachment lost)")
    return register_block(prog, f"{MW}:WorkloadGenerator.__init__", "gen_knobs_init", kept, ["self"] + list(KNOBS), "None")


def declare(S: Spec):
    S.cls("NpRng", {})
    S.cls("WorkloadGenerator", {"ticks_per_second": INT, "tick_length_secs": REAL, "ticks_since_last_gen": INT, "waiting_ticks_mean": INT,
                                "waiting_ticks_stdev": REAL, "curr_waiting_ticks": INT, "rng": Ref("NpRng"), "num_pipelines": INT,
                                "num_operators": REAL, "cpu_io_ratio": REAL, "pipeline_counter": INT})
    S.fn("ext:NpRng.normal", params={"loc": REAL, "scale": REAL}, returns=REAL, requires=[], ensures=[], modifies=[],
         note="A-RNG: numpy.random.Generator.normal returns an arbitrary real (its distribution is not modelled)")
    S.fns["ext:NpRng.normal"].trusted = True
    S.fn(f"{MP}:Segment.__init__", params={"baseline_cpu_seconds": REAL, "cpu_scaling": STR, "memory_gb": Opt(REAL), "storage_read_gb": REAL},
         requires=[], ensures=["self.baseline_cpu_seconds == baseline_cpu_seconds", "self.memory_gb == memory_gb",
                               "self.storage_read_gb == storage_read_gb"],
         modifies=[], note="assumed summary of the Segment constructor for a scaling law given by name (fields = arguments); monitored natively")
    S.fns[f"{MP}:Segment.__init__"].trusted = True
    S.fn(f"{MP}:Segment.fields.__init__", owners=["C15", "C14"],
         params={"baseline_cpu_seconds": REAL, "memory_gb": Opt(REAL), "storage_read_gb": REAL},
         requires=[],
         ensures=[("segment-fields-are-the-arguments", "self.baseline_cpu_seconds == old(baseline_cpu_seconds) and self.memory_gb == old(memory_gb) "
                                                       "and self.storage_read_gb == old(storage_read_gb)")],
         modifies=[],
         note="extracted from Segment.__init__: the leading plain assignments (before the scaling law is selected); discharges the field part of the "
              "assumed constructor summary above - what stays assumed is that the rest of the constructor does not write these fields (scanned) "
              "and that a normal return went through these statements")

    # ---- timing arithmetic of the constructor ---------------------------------------------------------
    S.fn(f"{MW}:gen_timing_init", owners=["C15"],
         params={"self": Ref("WorkloadGenerator"), "waiting_seconds_mean": REAL, "ticks_per_second": INT},
         requires=["self is not None", "ticks_per_second >= 1", "waiting_seconds_mean >= 0"],
         ensures=[("mean-gap-in-ticks", "self.waiting_ticks_mean == floor(rmul(waiting_seconds_mean, ticks_per_second))"),
                  ("spread-is-a-quarter", "self.waiting_ticks_stdev == rdiv(self.waiting_ticks_mean, 4)"),
                  ("first-event-at-once", "self.ticks_since_last_gen == 0 and self.curr_waiting_ticks == 0"),
                  ("tick-rate-kept", "self.ticks_per_second == ticks_per_second")],
         modifies=["self.ticks_per_second", "self.tick_length_secs", "self.ticks_since_last_gen", "self.waiting_ticks_mean",
                   "self.waiting_ticks_stdev", "self.curr_waiting_ticks"],
         note="extracted from WorkloadGenerator.__init__")

    S.fn(f"{MW}:gen_knobs_init", owners=["C15"],
         params={"self": Ref("WorkloadGenerator"), "cpu_io_ratio": REAL, "num_pipelines": INT, "num_operators": REAL},
         requires=["self is not None"],
         ensures=[("the-configured-ratio-is-the-one-used", "self.cpu_io_ratio == old(cpu_io_ratio)"),
                  ("the-configured-counts-are-the-ones-used", "self.num_pipelines == old(num_pipelines) and self.num_operators == old(num_operators)"),
                  ("only-ratios-in-0-1-are-accepted", "0 <= old(cpu_io_ratio) and old(cpu_io_ratio) <= 1")],
         raises={"AssertionError": ["not (0 <= old(cpu_io_ratio) and old(cpu_io_ratio) <= 1)"]},
         modifies=["self.cpu_io_ratio", "self.num_pipelines", "self.num_operators"],
         note="extracted from WorkloadGenerator.__init__: the statements that mention cpu_io_ratio / num_pipelines / num_operators")

    # ---- wait / emit protocol ----------------------------------------------------------------------------
    S.pred("GenInv", [("g", Ref("WorkloadGenerator"))],
           "0 <= g.ticks_since_last_gen and g.ticks_since_last_gen <= g.curr_waiting_ticks and g.waiting_ticks_mean >= 0 and g.rng is not None")
    S.fn(f"{MW}:WorkloadGenerator.generate_pipelines#any", returns=List(Ref("Pipeline")),
         requires=[], ensures=["result is not None"], modifies=["self.pipeline_counter"], allocates=True,
         note="assumed frame of generate_pipelines for the protocol proof (its content is checked natively, bounded)")
    S.fns[f"{MW}:WorkloadGenerator.generate_pipelines#any"].trusted = True
    S.fn(f"{MW}:WorkloadGenerator.run_one_tick", owners=["C15"], returns=List(Ref("Pipeline")),
         requires=["GenInv(self)"],
         ensures=[("event-exactly-when-the-wait-is-over",
                   "implies(old(self.ticks_since_last_gen) != old(self.curr_waiting_ticks), len(result) == 0"
                   " and self.ticks_since_last_gen == old(self.ticks_since_last_gen) + 1 and self.curr_waiting_ticks == old(self.curr_waiting_ticks))"),
                  ("after-an-event-the-count-restarts",
                   "implies(old(self.ticks_since_last_gen) == old(self.curr_waiting_ticks), self.ticks_since_last_gen == 0"
                   " and self.curr_waiting_ticks >= 0 and (self.curr_waiting_ticks >= 1 or self.curr_waiting_ticks == self.waiting_ticks_mean))"),
                  ("the-next-event-stays-reachable", "GenInv(self)")],
         modifies=["self.ticks_since_last_gen", "self.curr_waiting_ticks", "self.pipeline_counter"], allocates=True,
         variants={f"{MW}:WorkloadGenerator.generate_pipelines": f"{MW}:WorkloadGenerator.generate_pipelines#any"},
         note="events are one call (= one tick) apart at least; the gap is the drawn value if positive, else the mean")

    # ---- prototype selection -------------------------------------------------------------------------------
    S.pred("Proto", [("s", Ref("Segment")), ("cpu", REAL), ("read", REAL)],
           "s is not None and s.baseline_cpu_seconds == cpu and s.storage_read_gb == read and s.memory_gb is None")
    S.fn(f"{MW}:WorkloadGenerator.generate_segment_from_val", owners=["C15"], params={"val": REAL}, returns=Ref("Segment"),
         requires=[],
         ensures=[("io-heaviest-below-minus-one", "implies(val < -1, Proto(result, 1, 55))"),
                  ("second", "implies(-1 <= val and 2 * val < -1, Proto(result, 2, 55))"),
                  ("third", "implies(-1 <= 2 * val and val < 0, Proto(result, 5, 45))"),
                  ("fourth", "implies(0 <= val and 2 * val < 1, Proto(result, 15, 37.5))"),
                  ("fifth", "implies(1 <= 2 * val and val < 1, Proto(result, 20, 30))"),
                  ("sixth", "implies(1 <= val and 2 * val < 3, Proto(result, 40, 20))"),
                  ("cpu-heaviest-from-one-and-a-half", "implies(3 <= 2 * val, Proto(result, 80, 10))"),
                  ("more-cpu-bound-as-val-grows", "result is not None")],
         modifies=[], allocates=True)
    S.fn(f"{MW}:WorkloadGenerator.generate_segment_not_heavy_io", owners=["C15"], returns=Ref("Segment"),
         requires=["self.rng is not None"],
         ensures=[("never-the-io-heaviest-prototype", "result is not None and not Proto(result, 1, 55)"),
                  ("one-of-the-documented-prototypes", "Proto(result, 2, 55) or Proto(result, 5, 45) or Proto(result, 15, 37.5) or Proto(result, 20, 30)"
                                                       " or Proto(result, 40, 20) or Proto(result, 80, 10)")],
         modifies=[], allocates=True)
    S.fn(f"{MW}:WorkloadGenerator.generate_query_segment", owners=["C15"], returns=Ref("Segment"),
         requires=[], ensures=[("query-prototype", "Proto(result, 15, 35)")], modifies=[], allocates=True)


def declare2(S: Spec):
    """generate_pipelines: count and identifiers (the pipelines' inner structure is checked natively, bounded)"""
    Prio = Enum("Priority")
    S.cls("NdArray", {})
    S.cls("WorkloadGenerator", {"priority_values": List(INT), "priority_probs": Ref("NdArray")})
    S.fn("ext:NpRng.choice", params={"a": List(INT), "p": Ref("NdArray")}, returns=INT, requires=["a is not None and len(a) > 0"],
         ensures=["result in a"], modifies=[],
         note="A-RNG: Generator.choice(a, p) returns an element of a (which one is not modelled)")
    S.fns["ext:NpRng.choice"].trusted = True
    IDS = "all(pipelines[j] is not None and pipelines[j].pipeline_id == fmt('p{}', BASE + j + 1) for j in range(0, len(pipelines)))"
    SHAPE = "all(pipelines[j].values is not None and pipelines[j].values.node_ids is not None and len(pipelines[j].values.node_ids) >= 1 and implies(pipelines[j].priority == Priority.QUERY, len(pipelines[j].values.node_ids) == 1) for j in range(0, len(pipelines)))"
    FRAME = ["seq(pipelines) == at_entry(seq(pipelines))", SHAPE, "self.pipeline_counter == at_entry(self.pipeline_counter)",
             "self.rng is not None and self.priority_values is not None"]
    S.fn(f"{MW}:WorkloadGenerator.generate_pipelines", owners=["C15"], returns=List(Ref("Pipeline")),
         locals={"pipelines": List(Ref("Pipeline")), "priority": INT, "pipeline_id": STR, "p": Ref("Pipeline"), "op": Ref("Operator"),
                 "seg": Ref("Segment"), "prev_op": Ref("Operator"), "prev_seg": Ref("Segment"), "curr_num_ops": INT, "curr_num_segs": INT},
         requires=["self.rng is not None and self.priority_values is not None and len(self.priority_values) > 0",
                   "all(any(v == m.value for m in Priority) for v in self.priority_values)", "self.num_pipelines >= 0"],
         ensures=[("exactly-num-pipelines-per-event", "len(result) == self.num_pipelines"),
                  ("identifiers-continue-the-counter", "self.pipeline_counter == old(self.pipeline_counter) + self.num_pipelines"
                   " and all(result[j] is not None and result[j].pipeline_id == fmt('p{}', old(self.pipeline_counter) + j + 1) for j in range(0, len(result)))"),
                  ("a-query-has-one-operator-any-pipeline-at-least-one",
                   "all(result[j].values is not None and len(result[j].values.node_ids) >= 1"
                   " and implies(result[j].priority == Priority.QUERY, len(result[j].values.node_ids) == 1) for j in range(0, len(result)))"),
                  ("identifiers-are-fresh", "all(all(implies(i != j, result[i].pipeline_id != result[j].pipeline_id) for j in range(0, len(result))) for i in range(0, len(result)))")],
         modifies=["self.pipeline_counter"], allocates=True,
         loops={0: dict(idx="k", inv=["len(pipelines) == k", "k <= self.num_pipelines", "self.pipeline_counter == at_entry(self.pipeline_counter) + k",
                                      IDS.replace("BASE", "at_entry(self.pipeline_counter)"),
                                      SHAPE,
                                      "self.rng is not None and self.priority_values is not None"]),
                1: dict(idx="i", inv=FRAME + ["p is not None and p.values is not None and p.values.node_ids is not None and p.values.node_lookup is not None"
                                              " and p.values.roots is not None and fresh(p) and fresh(p.values) and fresh(p.values.node_ids)"
                                              " and fresh(p.values.node_lookup) and fresh(p.values.roots)",
                                              "len(p.values.node_ids) == i and p.priority != Priority.QUERY and all(pp is not p for pp in pipelines)",
                                              "implies(prev_op is not None, fresh(prev_op) and fresh(prev_op.children) and prev_op.children is not None"
                                              " and prev_op.id is not None and prev_op.id in p.values.node_ids)"]),
                2: dict(idx="jj", inv=FRAME + ["fresh(op) and fresh(op.values) and fresh(op.children)"])},
         note="count and identifiers of one arrival event; the drawn priority, the number of operators and the prototypes are arbitrary here")

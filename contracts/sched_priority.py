"""Contracts for eudoxia/scheduler/priority.py (C12).

Deductive: get_pool_with_max_avail_ram, the function whose -1 answer is the only way a waiting job is left waiting.
Monitor-only (bounded, never counted as proved): round-level clauses of priority_scheduler evaluated on the real code."""
from pyvc.ty import *  # noqa
from pyvc.spec import Spec

MPR = "eudoxia.scheduler.priority"
Prio = Enum("Priority")
STATS = Dict(INT, Dict(STR, REAL))


def declare(S: Spec):
    pass


def declare4(S: Spec):
    S.pred("StatsOK", [("s", Ref("Scheduler")), ("ps", STATS)],
           "s is not None and s.executor is not None and s.executor.num_pools >= 0 and ps is not None"
           " and all(i in ps and ps[i] is not None and 'avail_cpu' in ps[i] and 'avail_ram' in ps[i] for i in range(0, s.executor.num_pools))")
    S.pred("Usable", [("ps", STATS), ("i", INT)], "ps[i]['avail_cpu'] > 0 and ps[i]['avail_ram'] > 0")
    S.fn(f"{MPR}:get_pool_with_max_avail_ram", owners=["C12", "C08"],
         params={"s": Ref("Scheduler"), "pool_stats": STATS}, returns=INT, locals={"id_": INT, "max_ram": REAL, "i": INT},
         requires=["StatsOK(s, pool_stats)"],
         ensures=[("minus-one-only-when-every-pool-is-out-of-cpu-or-ram",
                   "(result == -1) == all(not Usable(pool_stats, i) for i in range(0, s.executor.num_pools))"),
                  ("otherwise-a-usable-pool", "implies(result != -1, 0 <= result and result < s.executor.num_pools and Usable(pool_stats, result))"),
                  ("with-the-most-free-ram-among-pools-with-free-cpu",
                   "implies(result != -1, all(implies(pool_stats[i]['avail_cpu'] > 0, pool_stats[i]['avail_ram'] <= pool_stats[result]['avail_ram'])"
                   " for i in range(0, s.executor.num_pools)))")],
         modifies=[],
         loops={0: dict(idx="k", inv=["k <= s.executor.num_pools", "max_ram >= 0",
                                      "(id_ == -1) == all(not Usable(pool_stats, j) for j in range(0, k))",
                                      "implies(id_ == -1, max_ram == 0)",
                                      "implies(id_ != -1, 0 <= id_ and id_ < k and Usable(pool_stats, id_) and max_ram == pool_stats[id_]['avail_ram'])",
                                      "all(implies(pool_stats[j]['avail_cpu'] > 0, pool_stats[j]['avail_ram'] <= max_ram) for j in range(0, k))"])})

    S.pred("ReadyPendingQueued", [("s", Ref("Scheduler")), ("p", Ref("Pipeline"))],
           "all(implies(p._runtime_status.operator_states[op] == OperatorState.PENDING"
           " and all(p._runtime_status.operator_states[q] == OperatorState.COMPLETED for q in op.parents),"
           " any(op in j.ops for j in s.qry_jobs) or any(op in j.ops for j in s.interactive_jobs) or any(op in j.ops for j in s.batch_ppln_jobs)"
           " or any(op in j.ops for j in vals_seq(s.suspending)))"
           " for op in keys(p._runtime_status.operator_states))")
    # ---- monitor-only round clauses (evaluated on the real code in the bounded scenarios) --------------------------------
    QS = "len(s.qry_jobs) + len(s.interactive_jobs) + len(s.batch_ppln_jobs)"
    c = S.fn(f"{MPR}:priority_scheduler", owners=["C12", "C08"],
             params={"s": Ref("Scheduler"), "results": List(Ref("ExecutionResult")), "pipelines": List(Ref("Pipeline"))},
             returns=Tuple(List(Ref("Suspend")), List(Ref("Assignment"))), requires=[], ensures=[],
             raises={"AssertionError": [], "KeyError": [], "ValueError": []}, modifies=["star('*')"],
             note="monitor-only: the function is outside the verifier's reach (iterators, try/except, dict-of-dict snapshots); "
                  "its round-level clauses are evaluated on the real code in bounded scenarios and never counted as proved")
    c.monitor_only = True
    c.native_ensures = [
        ("strict-priority-order",
         "implies(len(s.qry_jobs) > 0, all(a.priority == Priority.QUERY for a in result[1]))"
         " and implies(len(s.interactive_jobs) > 0, all(a.priority != Priority.BATCH_PIPELINE for a in result[1]))"),
        ("left-waiting-only-when-every-pool-is-out-of-cpu-or-ram",
         f"implies({QS} > 0, all(p.avail_cpu_pool - Sum([a for a in result[1] if a.pool_id == p.pool_id], 'cpuA') <= 0.000001"
         " or p.avail_ram_pool - Sum([a for a in result[1] if a.pool_id == p.pool_id], 'ramA') <= 0.000001 for p in s.executor.pools))"),
        ("suspends-only-non-query-containers-at-an-operator-boundary",
         "all(any(c.container_id == x.container_id and c.priority != Priority.QUERY and c._can_suspend"
         " for c in s.executor.pools[x.pool_id].active_containers) for x in result[0])"),
        ("suspends-only-while-a-query-waits-at-most-one-per-waiting-query-job",
         "len(result[0]) <= len(s.qry_jobs) and nodup([x.container_id for x in result[0]])"),
        ("each-queue-holds-only-jobs-of-its-priority",
         "all(j.priority == Priority.QUERY for j in s.qry_jobs) and all(j.priority == Priority.INTERACTIVE for j in s.interactive_jobs)"
         " and all(j.priority == Priority.BATCH_PIPELINE for j in s.batch_ppln_jobs)"),
        ("suspended-work-is-remembered",
         "all(x.container_id in s.suspending for x in result[0])"),
        ("single-operator-mode-ready-pending-work-of-touched-pipelines-is-queued-or-started",
         "implies(not s.multi_operator_containers, all(ReadyPendingQueued(s, p) for p in pipelines)"
         " and all(all(ReadyPendingQueued(s, op.pipeline) for op in r.ops) for r in results))"),
    ]


def prepare(prog):
    """one iteration of `for job in queue:` of priority_scheduler (the placement of one waiting job), see pyvc/extract.py"""
    import ast
    from pyvc.extract import extract_loop_body
    pred = lambda n: ast.unparse(n.target) == "job" and ast.unparse(n.iter) == "queue"
    return extract_loop_body(prog, f"{MPR}:priority_scheduler", "priority_place_job", pred, ["s", "job", "pool_stats", "to_remove", "to_start"])


def declare3(S: Spec):
    MA = "eudoxia.executor.assignment"
    MP = "eudoxia.workload.pipeline"
    S.pred("StatsFull", [("s", Ref("Scheduler")), ("ps", STATS)],
           "StatsOK(s, ps) and all('total_cpu' in ps[i] and 'total_ram' in ps[i] and ps[i]['total_cpu'] > 0 and ps[i]['total_ram'] > 0"
           " for i in range(0, s.executor.num_pools))"
           " and all(all(implies(i != j, ps[i] is not ps[j]) for j in range(0, s.executor.num_pools)) for i in range(0, s.executor.num_pools))")
    S.pred("JobWF", [("j", Ref("WaitingQueueJob"))],
           "j is not None and j.ops is not None and implies(j.retry_stats is not None, j.retry_stats.old_cpu > 0 and j.retry_stats.old_ram > 0)")
    LAST = "to_start[len(to_start) - 1]"
    S.fn(f"{MPR}:priority_place_job", owners=["C12", "C08"],
         params={"s": Ref("Scheduler"), "job": Ref("WaitingQueueJob"), "pool_stats": STATS, "to_remove": List(Ref("WaitingQueueJob")),
                 "to_start": List(Ref("Assignment"))},
         returns=STR,
         locals={"pool_id": INT, "op_list": List(Ref("Operator")), "rs": Ref("RetryStats"), "job_cpu": REAL, "job_ram": REAL,
                 "cpu_ratio": REAL, "ram_ratio": REAL, "asgmnt": Ref("Assignment")},
         requires=["StatsFull(s, pool_stats)", "JobWF(job)", "to_remove is not None and to_start is not None"],
         ensures=[("stops-only-when-every-pool-is-out-of-cpu-or-ram",
                   "(result == 'break') == all(not old(Usable(pool_stats, i)) for i in range(0, s.executor.num_pools))"),
                  ("a-stopped-round-changes-nothing",
                   "implies(result == 'break', len(to_start) == old(len(to_start)) and len(to_remove) == old(len(to_remove)))"),
                  ("the-job-leaves-the-queue-otherwise", "implies(result != 'break', seq(to_remove) == app(old(seq(to_remove)), job))"),
                  ("at-most-one-container-per-job", "len(to_start) == old(len(to_start)) or len(to_start) == old(len(to_start)) + 1"),
                  ("only-a-retry-after-an-error-is-dropped",
                   "implies(result == 'continue', len(to_start) == old(len(to_start)) and job.retry_stats is not None and job.retry_stats.error is not None)"),
                  ("a-placed-job-is-started", "implies(result == 'next', len(to_start) == old(len(to_start)) + 1)"),
                  ("the-container-fits-the-snapshot-and-is-charged-to-it",
                   f"implies(len(to_start) == old(len(to_start)) + 1, {LAST}.ops is job.ops and {LAST}.priority == job.priority"
                   f" and 0 <= {LAST}.pool_id and {LAST}.pool_id < s.executor.num_pools and {LAST}.cpu > 0 and {LAST}.ram > 0"
                   f" and all(implies(i == {LAST}.pool_id, old(Usable(pool_stats, i))"
                   f" and {LAST}.cpu <= old(pool_stats[i]['avail_cpu']) and {LAST}.ram <= old(pool_stats[i]['avail_ram'])"
                   f" and pool_stats[i]['avail_cpu'] == old(pool_stats[i]['avail_cpu']) - {LAST}.cpu"
                   f" and pool_stats[i]['avail_ram'] == old(pool_stats[i]['avail_ram']) - {LAST}.ram) for i in range(0, s.executor.num_pools)))"),
                  ("other-pools-keep-their-figures",
                   f"all(implies(len(to_start) == old(len(to_start)) or i != {LAST}.pool_id, pool_stats[i]['avail_cpu'] == old(pool_stats[i]['avail_cpu'])"
                   " and pool_stats[i]['avail_ram'] == old(pool_stats[i]['avail_ram'])) for i in range(0, s.executor.num_pools))"),
                  ("earlier-containers-kept", "take(seq(to_start), old(len(to_start))) == old(seq(to_start))")],
         raises={"Exception": []},
         modifies=["star('*')"], allocates=True,
         variants={f"{MA}:Assignment.__init__": f"{MA}:Assignment.__init__#shape", f"{MP}:Pipeline.runtime_status": f"{MP}:Pipeline.runtime_status#any"},
         note="one iteration of the job loop of priority_scheduler, extracted (continue/break of that loop become return values); "
              "an exception (the Assignment constructor's own assertions) is allowed to escape, what it leaves behind is not constrained")

"""Contracts for eudoxia/scheduler/rest.py (C19): the call gate and the pipeline tracking, extracted mechanically.

rest_scheduler itself does HTTP and JSON (outside the verifier's reach); the two blocks that carry protocol promises
are taken verbatim from its current source on every run:
  rest_gate(s, results, pipelines)  = the clock statements + the test of the early return  (True = no call this tick)
  rest_track(s, pipelines)          = `for p in pipelines: s.other_pipelines[...] = p` and the sweep that drops completed ones"""
import ast
from pyvc.ty import *  # noqa
from pyvc.spec import Spec

MRS = "eudoxia.scheduler.rest"


def prepare(prog):
    from pyvc.extract import extract_block
    fn = prog.func(f"{MRS}:rest_scheduler")
    a = b = None
    gate = None
    for st in fn.body:
        if isinstance(st, ast.If) and len(st.body) == 1 and isinstance(st.body[0], ast.Return) and "rest_poll_interval" in ast.unparse(st.test):
            gate = st
    if gate is not None:
        # every top-level statement from `s.current_tick += 1` up to the gate: assignments are kept; any other statement is dropped only
        # if it provably cannot influence them or the gate's test - it binds no name they read, writes no attribute or subscript and
        # does not leave the block (on the pinned tree: the timing log of the final tick); otherwise the contract does not attach
        from pyvc.extract import register_block, stores_of, reads_of
        body = fn.body
        i0 = next((k for k, st in enumerate(body) if isinstance(st, ast.AugAssign) and ast.unparse(st.target) == "s.current_tick"), None)
        ig = body.index(gate)
        if i0 is not None and i0 < ig:
            kept = [st for st in body[i0:ig] if isinstance(st, (ast.Assign, ast.AugAssign))]
            needed = reads_of(kept + [gate.test])
            ok = True
            for st in body[i0:ig]:
                if st in kept:
                    continue
                names, other = stores_of(st)
                if other or (names & needed):
                    ok = False
            if ok:
                try:
                    a = register_block(prog, f"{MRS}:rest_scheduler", "rest_gate", kept, ["s", "results", "pipelines"], ast.unparse(gate.test))
                except KeyError:
                    pass
    is_start2 = lambda s: isinstance(s, ast.For) and ast.unparse(s.iter) == "pipelines" and "other_pipelines" in ast.unparse(s)
    belongs2 = lambda s: isinstance(s, ast.For)
    try:
        b = extract_block(prog, f"{MRS}:rest_scheduler", "rest_track", is_start2, belongs2, ["s", "pipelines"], "None")
    except KeyError:
        pass
    return a, b      # a block that is not found leaves its contract unattached; it is then reported as unreachable on its own


def declare4(S: Spec):
    S.cls("Scheduler", {"current_tick": INT, "last_call_sim_time": REAL, "rest_poll_interval": REAL, "params": Dict(STR, REAL),
                        "other_pipelines": Dict(STR, Ref("Pipeline")), "operator_lookup": Dict(STR, Ref("Operator"))})
    S.fn(f"{MRS}:rest_gate", owners=["C19"],
         params={"s": Ref("Scheduler"), "results": List(Ref("ExecutionResult")), "pipelines": List(Ref("Pipeline"))}, returns=BOOL,
         requires=["s is not None and s.params is not None and results is not None and pipelines is not None",
                   "'ticks_per_second' in s.params and s.params['ticks_per_second'] >= 1"],
         ensures=[("tick-counted", "s.current_tick == old(s.current_tick) + 1"),
                  ("no-call-only-if-nothing-arrived-nothing-finished-and-the-poll-interval-has-not-passed",
                   "result == (len(pipelines) == 0 and len(results) == 0 and"
                   " rdiv(s.current_tick, s.params['ticks_per_second']) - s.last_call_sim_time < s.rest_poll_interval)")],
         modifies=["s.current_tick"],
         note="extracted: clock statements of rest_scheduler and the test of its early return (seconds, not ticks)")

    # iterating a pipeline's DAG visits exactly its operators, each once (decided under C01 clause c; assumed here)
    S.fn("iter_of:DAG", params={}, returns=SeqV(Ref("Operator")), requires=[],
         ensures=["nodup(result)", "all(op is not None and any(self.node_lookup[k] is op for k in keys(self.node_lookup)) for op in result)",
                  "all(self.node_lookup[k] in result for k in keys(self.node_lookup))"],
         modifies=[], note="assumed: for op in dag visits the DAG's operators exactly once (C01 clause c)")
    S.fns["iter_of:DAG"].trusted = True
    S.pred("LookupOK", [("s", Ref("Scheduler")), ("p", Ref("Pipeline"))],
           "p.values is not None and all(str(p.values.node_lookup[k].id) in s.operator_lookup for k in keys(p.values.node_lookup))")
    S.pred("Tracked", [("s", Ref("Scheduler")), ("p", Ref("Pipeline"))],
           "p is not None and p._runtime_status is not None and I1(p._runtime_status) and LookupOK(s, p)"
           " and all(p.values.node_lookup[k] is not None and p.values.node_lookup[k].pipeline is p for k in keys(p.values.node_lookup))")
    S.pred("TrackingOK", [("s", Ref("Scheduler"))],
           "s.other_pipelines is not None and s.operator_lookup is not None and s.other_pipelines is not s.operator_lookup and nodup(keys(s.other_pipelines))"
           " and all(Tracked(s, s.other_pipelines[k]) and s.other_pipelines[k].pipeline_id == k for k in s.other_pipelines)")
    MP = "eudoxia.workload.pipeline"
    KS = "at_entry(keys(s.other_pipelines))"
    D0J = "at_entry(s.other_pipelines[keys(s.other_pipelines)[j]])"
    S.fn(f"{MRS}:rest_track", owners=["C19"],
         params={"s": Ref("Scheduler"), "pipelines": List(Ref("Pipeline"))},
         locals={"p": Ref("Pipeline"), "pipeline_id": STR, "pipeline": Ref("Pipeline"), "op": Ref("Operator")},
         requires=["s is not None and pipelines is not None", "TrackingOK(s)", "all(Tracked(s, p) for p in pipelines)", "nodup(seq(pipelines))",
                   "all(all(implies(p.pipeline_id == q.pipeline_id, p is q) for q in pipelines) for p in pipelines)",
                   "all(all(p.pipeline_id != k for k in s.other_pipelines) for p in pipelines)",
                   "all(all(all(p.values.node_lookup[a].id is not q.values.node_lookup[b].id for b in keys(q.values.node_lookup)) for a in keys(p.values.node_lookup))"
                   " for p in every('Pipeline') for q in every('Pipeline') if p is not q)" if False else "True"],
         ensures=[("completed-pipelines-are-dropped-the-others-kept",
                   "all(implies(k in s.other_pipelines, not CountsDone(s.other_pipelines[k])) for k in s.other_pipelines)"),
                  ("arrivals-are-tracked-unless-already-complete",
                   "all(implies(not CountsDone(p), p.pipeline_id in s.other_pipelines and s.other_pipelines[p.pipeline_id] is p) for p in pipelines)"),
                  ("known-unfinished-pipelines-stay-tracked",
                   "all(implies(not CountsDone(old(s.other_pipelines[k])), k in s.other_pipelines and s.other_pipelines[k] is old(s.other_pipelines[k]))"
                   " for k in old(keys(s.other_pipelines)))"),
                  ("nothing-else-is-tracked",
                   "all(k in old(keys(s.other_pipelines)) or any(p.pipeline_id == k for p in pipelines) for k in s.other_pipelines)")],
         modifies=["contents(s.other_pipelines)", "contents(s.operator_lookup)"],
         variants={f"{MP}:Pipeline.runtime_status": f"{MP}:Pipeline.runtime_status"},
         loops={0: dict(idx="i", inv=["i <= len(pipelines)", "nodup(keys(s.other_pipelines))",
                                      "all(k in s.other_pipelines and s.other_pipelines[k] is at_entry(s.other_pipelines[k]) for k in at_entry(keys(s.other_pipelines)))",
                                      "all(pipelines[j].pipeline_id in s.other_pipelines and s.other_pipelines[pipelines[j].pipeline_id] is pipelines[j] for j in range(0, i))",
                                      "all(k in at_entry(keys(s.other_pipelines)) or any(pipelines[j].pipeline_id == k for j in range(0, i)) for k in s.other_pipelines)",
                                      "all(Tracked(s, s.other_pipelines[k]) and s.other_pipelines[k].pipeline_id == k for k in s.other_pipelines)"]),
                1: dict(idx="i", inv=[f"i <= len({KS})", f"nodup({KS})", "nodup(keys(s.other_pipelines))",
                                      "s.other_pipelines is not None and s.operator_lookup is not None and s.other_pipelines is not s.operator_lookup",
                                      f"all(({KS}[j] in s.other_pipelines) == (not CountsDone({D0J})) for j in range(0, i))",
                                      f"all({KS}[j] in s.other_pipelines for j in range(i, len({KS})))",
                                      f"all(k in {KS} for k in s.other_pipelines)",
                                      "all(s.other_pipelines[k] is at_entry(s.other_pipelines[k]) for k in s.other_pipelines)",
                                      "all(Tracked(s, s.other_pipelines[k]) and s.other_pipelines[k].pipeline_id == k for k in s.other_pipelines)"]),
                2: dict(idx="m", inv=["m <= len(loop_seq)",
                                      "all(str(loop_seq[j].id) in s.operator_lookup for j in range(m, len(loop_seq)))",
                                      "keys(s.other_pipelines) == at_entry(keys(s.other_pipelines))",
                                      "all(s.other_pipelines[k] is at_entry(s.other_pipelines[k]) for k in s.other_pipelines)",
                                      "all(implies(k != pipeline_id, LookupOK(s, s.other_pipelines[k])) for k in s.other_pipelines)"])},
         note="extracted: the tracking statements at the end of rest_scheduler")


def declare(S: Spec):
    pass

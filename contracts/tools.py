"""Contracts for eudoxia/tools.py (C20): the arithmetic of `tools snap`, mechanically extracted from snap_command."""
import ast
from pyvc.ty import *  # noqa
from pyvc.spec import Spec

MT = "eudoxia.tools"


def prepare(prog):
    """extract the snapping arithmetic (from `original = float(...)` up to the store into the row) as snap_arith(original, ticks_per_second)"""
    from pyvc.extract import extract_block
    def is_start(s):
        return isinstance(s, ast.Assign) and isinstance(s.targets[0], ast.Name) and s.targets[0].id == "tick"
    def belongs(s):
        txt = ast.unparse(s)
        return "row[" not in txt and "writer" not in txt
    try:
        prepare_tasks(prog)
    except KeyError:
        pass        # build_tasks is then reported as unreachable on its own
    try:
        j_start = lambda s: isinstance(s, ast.Assign) and isinstance(s.targets[0], ast.Name) and s.targets[0].id == "jitter"
        j_in = lambda s: isinstance(s, ast.Assign) and isinstance(s.targets[0], ast.Name) and s.targets[0].id in ("jitter", "jittered")
        extract_block(prog, f"{MT}:jitter_command", "jitter_arith", j_start, j_in, ["rng", "original", "delta"], "jittered")
    except KeyError:
        pass
    try:
        prepare_order(prog)
    except KeyError:
        pass        # jitter_order is then reported as unreachable on its own
    return extract_block(prog, f"{MT}:snap_command", "snap_arith", is_start, belongs, ["original", "ticks_per_second"], "snapped")


def prepare_order(prog):
    """whatever jitter_command does, at the top level of its body, between the `with` that reads the input file and the `with`
    that writes the output file (on the pinned tree: `pipelines.sort(key=lambda x: x[0])`) as jitter_order(pipelines, delta)"""
    from pyvc.extract import extract_block
    fn = prog.func(f"{MT}:jitter_command")
    withs = [k for k, st in enumerate(fn.body) if isinstance(st, ast.With)]
    rd = [k for k in withs if any(getattr(it.optional_vars, "id", None) == "infile" for it in fn.body[k].items)]
    wr = [k for k in withs if any(getattr(it.optional_vars, "id", None) == "outfile" for it in fn.body[k].items)]
    if len(rd) != 1 or len(wr) != 1 or not rd[0] + 1 < wr[0]:
        raise KeyError("eudoxia.tools:jitter_command: no statements between reading the input and writing the output (contract attachment lost)")
    block = fn.body[rd[0] + 1:wr[0]]
    return extract_block(prog, f"{MT}:jitter_command", "jitter_order", lambda st: st is block[0], lambda st: any(st is b for b in block),
                         ["pipelines", "delta"], "pipelines")


def prepare_tasks(prog):
    """the task-building loop of sensitivity_sample_command (`tasks = []` and the following `for`) as
    build_tasks(sample_size, start_seed, params_file, output_dir, jitter_seed) -> tasks; the namedtuple
    `SensitivityTask = namedtuple(name, [fields])` of the module is registered as a record class with those fields"""
    from pyvc.extract import extract_block
    nt = prog.const_nodes.get(f"{MT}:SensitivityTask")
    if not (isinstance(nt, ast.Call) and ast.unparse(nt.func).endswith("namedtuple") and len(nt.args) == 2
            and isinstance(nt.args[1], (ast.List, ast.Tuple))):
        raise KeyError("eudoxia.tools:SensitivityTask is no longer a namedtuple with a literal field list (contract attachment lost)")
    fields = [ast.literal_eval(e) for e in nt.args[1].elts]
    cls = ast.ClassDef(name="SensitivityTask", bases=[], keywords=[], decorator_list=[], type_params=[],
                       body=[ast.AnnAssign(target=ast.Name(id=f, ctx=ast.Store()), annotation=ast.Name(id="object", ctx=ast.Load()), simple=1)
                             for f in fields])
    ast.fix_missing_locations(cls)
    prog.classes["SensitivityTask"] = (MT, cls)
    seen = []
    def is_start(s):
        return isinstance(s, ast.Assign) and isinstance(s.targets[0], ast.Name) and s.targets[0].id == "tasks"
    def belongs(s):
        seen.append(s)
        return is_start(s) or (isinstance(s, ast.For) and len(seen) <= 2)
    return extract_block(prog, f"{MT}:sensitivity_sample_command", "build_tasks", is_start, belongs,
                         ["sample_size", "start_seed", "params_file", "output_dir", "jitter_seed"], "tasks")


def declare(S: Spec):
    S.fn(f"{MT}:snap_arith", owners=["C20"],
         params={"original": REAL, "ticks_per_second": INT}, returns=REAL,
         requires=["ticks_per_second >= 1", "original >= 0"],
         ensures=[("never-up", "result <= original"),
                  ("by-less-than-one-tick", "original - result < rdiv(1, ticks_per_second)"),
                  ("on-a-tick-boundary", "any(result == rdiv(k, ticks_per_second) for k in every('int'))"),
                  ("boundary-values-unchanged", "implies(real(floor(rmul(original, ticks_per_second))) == rmul(original, ticks_per_second), result == original)")],
         modifies=[], nl="native",
         note="real arithmetic (A-REAL); the floating-point behaviour of the same statements is checked by the bounded grid run")

    S.cls("SensitivityTask", {"workload_index": INT, "params_file": STR, "output_dir": STR, "seed": INT, "jitter_seed": Opt(INT)},
          immutable=("workload_index", "params_file", "output_dir", "seed", "jitter_seed"))
    S.fn(f"{MT}:build_tasks", owners=["C20"],
         params={"sample_size": INT, "start_seed": INT, "params_file": STR, "output_dir": STR, "jitter_seed": Opt(INT)},
         returns=List(Ref("SensitivityTask")), locals={"tasks": List(Ref("SensitivityTask")), "i": INT, "seed": INT, "task": Ref("SensitivityTask")},
         requires=["sample_size >= 0"],
         ensures=[("one-task-per-sample", "len(result) == sample_size"),
                  ("task-i-has-seed-start+i", "all(result[i].workload_index == i and result[i].seed == start_seed + i for i in range(sample_size))"),
                  ("different-samples-different-seeds", "all(all(implies(i != j, result[i].seed != result[j].seed) for j in range(sample_size)) for i in range(sample_size))"),
                  ("other-settings-passed-on", "all(result[i].params_file == params_file and result[i].output_dir == output_dir and result[i].jitter_seed == jitter_seed for i in range(sample_size))")],
         modifies=[], allocates=True,
         loops={0: dict(idx="n", inv=["len(tasks) == n",
                             "all(tasks[k].workload_index == k and tasks[k].seed == start_seed + k and tasks[k].params_file == params_file"
                             " and tasks[k].output_dir == output_dir and tasks[k].jitter_seed == jitter_seed for k in range(len(tasks)))"])},
         note="the loop is taken verbatim from sensitivity_sample_command; what each task does with its seed is checked natively (bounded)")

    S.cls("NpRng", {})
    S.fn("ext:NpRng.uniform", params={"low": REAL, "high": REAL}, returns=REAL, requires=[],
         ensures=["implies(low <= high, low <= result and result <= high)"], modifies=[],
         note="A-RNG: numpy.random.Generator.uniform(low, high) returns an arbitrary value of [low, high]")
    S.fns["ext:NpRng.uniform"].trusted = True
    S.fn(f"{MT}:jitter_arith", owners=["C20"], params={"rng": Ref("NpRng"), "original": REAL, "delta": REAL}, returns=REAL,
         locals={"jitter": REAL},
         requires=["rng is not None", "delta >= 0"],
         ensures=[("never-earlier", "result >= original"), ("by-at-most-delta", "result - original <= delta")],
         modifies=[], note="extracted from jitter_command: the draw and the addition (real arithmetic)")


def declare2(S: Spec):
    # jitter: the pipelines (arrival, rows) between reading and writing; the rows of a pipeline are opaque here
    S.cls("RowGroup", {})
    PL = List(Tuple(REAL, Ref("RowGroup")))
    S.fn(f"{MT}:jitter_order", owners=["C20"], params={"pipelines": PL, "delta": REAL}, returns=PL,
         requires=["pipelines is not None", "delta >= 0"],
         ensures=[("written-in-ascending-arrival-order",
                   "all(all(implies(i < j, result[i][0] <= result[j][0]) for j in range(0, len(result))) for i in range(0, len(result)))"),
                  ("every-pipeline-kept-none-added",
                   "len(result) == old(len(pipelines)) and all(p in result for p in old(seq(pipelines))) and all(p in old(seq(pipelines)) for p in result)"),
                  ("the-list-that-is-written", "result is pipelines")],
         modifies=["contents(pipelines)"],
         note="extracted from jitter_command: the statements between reading and writing, for every delta >= 0; list.sort is an assumed "
              "contract (sorted permutation); that the writing loop emits `pipelines` in list order is checked natively (bounded)")

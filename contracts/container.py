"""Contracts for eudoxia/executor/assignment.py and container.py (C01, C02, C04, C05, C09, C10)."""
from pyvc.ty import *  # noqa
from pyvc.spec import Spec

MA = "eudoxia.executor.assignment"
MC = "eudoxia.executor.container"
MP = "eudoxia.workload.pipeline"
OpState = Enum("OperatorState")


def declare(S: Spec):
    S.pred("status", [("op", Ref("Operator"))], "op.pipeline._runtime_status")
    S.pred("state", [("op", Ref("Operator"))], "op.pipeline._runtime_status.operator_states[op]")
    S.pred("WFop", [("op", Ref("Operator"))],
           "op is not None and op.pipeline is not None and op.pipeline._runtime_status is not None"
           " and KnownOp(op.pipeline._runtime_status, op) and I1(op.pipeline._runtime_status)")

    # Pipeline.runtime_status(): lazily created status; under contract only the already-initialised case
    S.fn(f"{MP}:Pipeline.runtime_status",
         returns=Ref("PipelineRuntimeStatus"),
         requires=["self._runtime_status is not None"],
         ensures=["result is self._runtime_status"],
         modifies=[],
         note="lazy-creation branch excluded by precondition: every pipeline's status is created when the main loop records its arrival")

    S.fn(f"{MA}:Assignment.__init__",
         params={"ops": List(Ref("Operator")), "cpu": REAL, "ram": REAL, "priority": Enum("Priority"), "pool_id": INT,
                 "pipeline_id": STR, "container_id": Opt(STR), "is_resume": BOOL, "force_run": BOOL},
         requires=["ops is not None", "all(WFop(op) for op in ops)"],
         ensures=[("nonempty", "len(ops) > 0 and cpu > 0 and ram > 0"),
                  ("all-assigned", "all(state(op) == OperatorState.ASSIGNED for op in ops)"),
                  ("were-assignable", "all(old(state(op)) in ASSIGNABLE_STATES for op in ops)"),
                  ("distinct", "nodup(ops)"),
                  ("others-kept", "all(state(o) == old(state(o)) for o in every('Operator') if o not in ops)"),
                  ("fields", "self.ops is ops and self.cpu == cpu and self.ram == ram and self.priority == priority and self.pool_id == pool_id"),
                  ("wf-kept", "all(WFop(op) for op in ops)")],
         raises={"AssertionError": []},
         modifies=["(contents(op.pipeline._runtime_status.operator_states) for op in ops)",
                   "(contents(op.pipeline._runtime_status.state_counts) for op in ops)"],
         loops={0: dict(idx="k", header="for op in ops",
                        inv=["all(state(ops[j]) == OperatorState.ASSIGNED for j in range(0, k))",
                             "all(old(state(ops[j])) in ASSIGNABLE_STATES for j in range(0, k))",
                             "nodup(take(ops, k))",
                             "all(state(o) == old(state(o)) for o in every('Operator') if o not in take(ops, k))",
                             "all(WFop(op) for op in ops)",
                             "seq(ops) == old(seq(ops))", "k <= len(ops)"])})

    S.fn(f"{MC}:Container.set_current_memory_usage",
         params={"new_memory": REAL},
         requires=["self.pool is not None"],
         ensures=["self._current_memory == new_memory",
                  "self.pool.consumed_ram_gb == old(self.pool.consumed_ram_gb) + new_memory - old(self._current_memory)"],
         modifies=["self._current_memory", "self.pool.consumed_ram_gb"])

    S.fn(f"{MC}:Container._mark_completed",
         params={"error": Opt(STR)},
         requires=["self.pool is not None"],
         ensures=["self._completed", "self.error == error", "self._current_memory == 0",
                  "self.pool.consumed_ram_gb == old(self.pool.consumed_ram_gb) - old(self._current_memory)"],
         modifies=["self._current_memory", "self.pool.consumed_ram_gb", "self._completed", "self.error"])

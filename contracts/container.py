"""Contracts for eudoxia/executor/assignment.py and container.py (C01, C02, C04, C05, C09, C10)."""
from pyvc.ty import *  # noqa
from pyvc.spec import Spec

MA = "eudoxia.executor.assignment"
MC = "eudoxia.executor.container"
MP = "eudoxia.workload.pipeline"
OpState = Enum("OperatorState")


def declare(S: Spec):
    S.pred("status", [("op", Ref("Operator"))], "op.pipeline._runtime_status")
    S.pred("state", [("op", Ref("Operator"))], "op.pipeline._runtime_status.operator_states[op]")
    S.pred("WFop", [("op", Ref("Operator"))],
           "op is not None and op.pipeline is not None and op.pipeline._runtime_status is not None"
           " and KnownOp(op.pipeline._runtime_status, op)")

    # Pipeline.runtime_status(): lazily created status; under contract only the already-initialised case
    S.fn(f"{MP}:Pipeline.runtime_status", owners=["C02"],
         returns=Ref("PipelineRuntimeStatus"),
         requires=["self._runtime_status is not None"],
         ensures=["result is self._runtime_status"],
         modifies=[],
         note="lazy-creation branch excluded by precondition: every pipeline's status is created when the main loop records its arrival")

    S.fn(f"{MA}:Assignment.__init__", owners=["C02", "C09"],
         params={"ops": List(Ref("Operator")), "cpu": REAL, "ram": REAL, "priority": Enum("Priority"), "pool_id": INT,
                 "pipeline_id": STR, "container_id": Opt(STR), "is_resume": BOOL, "force_run": BOOL},
         requires=["ops is not None", "all(WFop(op) for op in ops)", "GI1()"],
         ensures=[("nonempty", "len(ops) > 0 and cpu > 0 and ram > 0"),
                  ("all-assigned", "all(state(op) == OperatorState.ASSIGNED for op in ops)"),
                  ("were-assignable", "all(old(state(op)) in ASSIGNABLE_STATES for op in ops)"),
                  ("distinct", "nodup(ops)"),
                  ("others-kept", "all(state(o) == old(state(o)) for o in every('Operator') if o not in ops)"),
                  ("fields", "self.ops is ops and self.cpu == cpu and self.ram == ram and self.priority == priority and self.pool_id == pool_id"),
                  ("I1", "GI1()"),
                  ("failed-counts-kept", "implies(all(old(state(op)) == OperatorState.PENDING for op in ops),"
                                         " all(st.state_counts[OperatorState.FAILED] == old(st.state_counts[OperatorState.FAILED])"
                                         " for st in every('PipelineRuntimeStatus')))")],
         raises={"AssertionError": ["GI1()",
                                    "not (len(ops) > 0 and cpu > 0 and ram > 0 and nodup(ops)"
                                    " and all(old(state(op)) in ASSIGNABLE_STATES for op in ops))"]},
         modifies=["(values(op.pipeline._runtime_status.operator_states) for op in ops)",
                   "(values(op.pipeline._runtime_status.state_counts) for op in ops)"],
         loops={0: dict(idx="k", header="for op in ops",
                        inv=["all(state(ops[j]) == OperatorState.ASSIGNED for j in range(0, k))",
                             "all(old(state(ops[j])) in ASSIGNABLE_STATES for j in range(0, k))",
                             "nodup(take(ops, k))",
                             "all(state(o) == old(state(o)) for o in every('Operator') if o not in take(ops, k))",
                             "GI1()", "k <= len(ops)",
                             "implies(all(old(state(ops[j])) == OperatorState.PENDING for j in range(0, k)),"
                             " all(st.state_counts[OperatorState.FAILED] == old(st.state_counts[OperatorState.FAILED])"
                             " for st in every('PipelineRuntimeStatus')))"])})

    S.fn(f"{MC}:Container.set_current_memory_usage", owners=["C04"],
         params={"new_memory": REAL},
         requires=["self.pool is not None"],
         ensures=["self._current_memory == new_memory",
                  "self.pool.consumed_ram_gb == old(self.pool.consumed_ram_gb) + new_memory - old(self._current_memory)"],
         modifies=["self._current_memory", "self.pool.consumed_ram_gb"])

    S.fn(f"{MC}:Container._mark_completed", owners=["C04", "C09"],
         params={"error": Opt(STR)},
         requires=["self.pool is not None"],
         ensures=["self._completed", "self.error == error", "self._current_memory == 0",
                  "self.pool.consumed_ram_gb == old(self.pool.consumed_ram_gb) - old(self._current_memory)"],
         modifies=["self._current_memory", "self.pool.consumed_ram_gb", "self._completed", "self.error"])


def declare2(S: Spec):
    # container well-formedness (the part of the global invariant I4 that one container carries)
    S.pred("CWF", [("c", Ref("Container"))],
           "c is not None and c.assignment is not None and c.pool is not None and c.assignment.ops is not None"
           " and nodup(c.assignment.ops) and all(WFop(op) for op in c.assignment.ops)"
           " and 0 <= c._current_op_idx and c._current_op_idx <= len(c.assignment.ops)"
           " and c.ticks_per_second >= 1 and c.tick_length_secs == rdiv(1.0, c.ticks_per_second)")
    S.pred("rest", [("c", Ref("Container"))], "drop(c.assignment.ops, c._current_op_idx)")
    OPS_MOD = ["(values(op.pipeline._runtime_status.operator_states) for op in self.assignment.ops)",
               "(values(op.pipeline._runtime_status.state_counts) for op in self.assignment.ops)"]

    def suffix_loop(target):
        return dict(idx="j",
                    inv=[f"all(state(rest(self)[i]) == OperatorState.{target} for i in range(0, j))",
                         "all(state(o) == old(state(o)) for o in every('Operator') if o not in take(rest(self), j))",
                         "GI1()", "j <= len(rest(self))"])

    S.fn(f"{MC}:Container.kill", owners=["C02", "C09"],
         params={"error": STR},
         requires=["CWF(self)", "GI1()", "not self._completed",
                   "all(state(op) in (OperatorState.ASSIGNED, OperatorState.RUNNING) for op in rest(self))"],
         ensures=[("suffix-failed", "all(state(op) == OperatorState.FAILED for op in rest(self))"),
                  ("others-kept", "all(state(o) == old(state(o)) for o in every('Operator') if o not in rest(self))"),
                  ("ended", "self._completed and self.error == error and error != '' and self._current_memory == 0"),
                  ("usage-returned", "self.pool.consumed_ram_gb == old(self.pool.consumed_ram_gb) - old(self._current_memory)"),
                  ("I1", "GI1()")],
         raises={"AssertionError": ["error == ''", "GI1()"]},
         modifies=OPS_MOD + ["self._current_memory", "self.pool.consumed_ram_gb", "self._completed", "self.error"],
         loops={0: dict(header="for op in self.operators[self._current_op_idx:]", **suffix_loop("FAILED"))},
         covers={"mid-run": "self._current_op_idx >= 1 and len(self.assignment.ops) >= 3"})

    S.fn(f"{MC}:Container.suspend_container", owners=["C10", "C02"],
         requires=["CWF(self)", "GI1()", "self.assignment.ram > 0",
                   "all(state(op) == OperatorState.ASSIGNED for op in rest(self))"],
         ensures=[("duration", "C10| self.suspend_ticks == max(1, floor(rmul(self.assignment.ram / 20, self.ticks_per_second)))"),
                  ("counter", "self._suspend_ticks_left == self.suspend_ticks"),
                  ("at-least-one", "C10| self._suspend_ticks_left >= 1"),
                  ("stops-counting", "C04,C10| self._current_memory == 0 and"
                                     " self.pool.consumed_ram_gb == old(self.pool.consumed_ram_gb) - old(self._current_memory)"),
                  ("suffix-suspending", "all(state(op) == OperatorState.SUSPENDING for op in rest(self))"),
                  ("others-kept", "all(state(o) == old(state(o)) for o in every('Operator') if o not in rest(self))"),
                  ("I1", "GI1()")],
         modifies=OPS_MOD + ["self.suspend_ticks", "self._suspend_ticks_left", "self._current_memory", "self.pool.consumed_ram_gb"],
         loops={0: dict(header="for op in self.operators[self._current_op_idx:]", **suffix_loop("SUSPENDING"))})

    S.fn(f"{MC}:Container.suspend_container_tick", owners=["C10", "C02"],
         requires=["CWF(self)", "GI1()", "self._suspend_ticks_left is not None", "self._suspend_ticks_left >= 1",
                   "all(state(op) == OperatorState.SUSPENDING for op in rest(self))"],
         ensures=[("counter", "self._suspend_ticks_left == old(self._suspend_ticks_left) - 1"),
                  ("released", "implies(self._suspend_ticks_left == 0, all(state(op) == OperatorState.PENDING for op in rest(self)))"),
                  ("others-kept", "all(state(o) == old(state(o)) for o in every('Operator') if o not in rest(self))"),
                  ("not-yet", "implies(self._suspend_ticks_left != 0, all(state(o) == old(state(o)) for o in every('Operator')))"),
                  ("I1", "GI1()")],
         modifies=OPS_MOD + ["self._suspend_ticks_left"],
         loops={0: dict(header="for op in self.operators[self._current_op_idx:]", **suffix_loop("PENDING"))})


def declare3(S: Spec):
    """Unconditional 'shape and frame' variants (no precondition): what these functions do to ANY arguments.
    Used by proofs that do not want to carry operator well-formedness (e.g. the priority-pool queue-class proof)."""
    MRS = "eudoxia.workload.runtime_status"
    S.fn(f"{MRS}:PipelineRuntimeStatus.check_transition#pure", owners=["C16"],
         params={"operator": Ref("Operator"), "new_state": OpState}, returns=Tuple(BOOL, Opt(STR)),
         requires=[], ensures=[], raises={"Exception": []}, modifies=[],
         loops={0: dict(idx="k", inv=[])})
    S.fn(f"{MRS}:PipelineRuntimeStatus.transition#frame", owners=["C16"],
         params={"operator": Ref("Operator"), "new_state": OpState},
         requires=[], ensures=[], raises={"Exception": []},
         modifies=["values(self.operator_states)", "values(self.state_counts)"],
         variants={f"{MRS}:PipelineRuntimeStatus.check_transition": f"{MRS}:PipelineRuntimeStatus.check_transition#pure"})
    S.fn(f"{MP}:Pipeline.runtime_status#any", owners=["C16", "C12", "C08"], returns=Ref("PipelineRuntimeStatus"),
         requires=[], ensures=["result is not None"], raises={"Exception": []},
         modifies=["self._runtime_status"], allocates=True,
         note="frame of the lazy creation, verified on the real method: writes only self._runtime_status and the objects it creates "
              "(against the assumed summary of PipelineRuntimeStatus.__init__, contracts/simstats.py)")
    S.fn(f"{MA}:Assignment.__init__#shape", owners=["C16"],
         params={"ops": List(Ref("Operator")), "cpu": REAL, "ram": REAL, "priority": Enum("Priority"), "pool_id": INT,
                 "pipeline_id": STR, "container_id": Opt(STR), "is_resume": BOOL, "force_run": BOOL},
         requires=[],
         ensures=[("fields", "self.ops is ops and self.cpu == cpu and self.ram == ram and self.priority == priority and self.pool_id == pool_id")],
         raises={"Exception": []},
         modifies=["star('dv:Operator:OperatorState')", "star('dv:OperatorState:int')", "star('fld:Pipeline._runtime_status')"],
         allocates=True,
         variants={f"{MRS}:PipelineRuntimeStatus.transition": f"{MRS}:PipelineRuntimeStatus.transition#frame",
                   f"{MP}:Pipeline.runtime_status": f"{MP}:Pipeline.runtime_status#any"},
         loops={0: dict(idx="k", header="for op in ops", inv=[])})

MODULES = ["runtime_status", "container", "container_gen", "pool", "dag", "sched_naive", "sched_overbook", "sched_prio_pool", "trace", "tools", "simstats", "csvio", "generator", "sched_priority"]

"""Contracts for eudoxia/workload/csv_io.py (C14): the format rules a trace must obey, as the reader enforces them.

The rule-checking prefix of CSVWorkloadReader.create_pipeline_from_batch (from `if not batch` up to, not including, the
construction of the Pipeline) is extracted mechanically on every run as batch_format(batch)."""
import ast
from pyvc.ty import *  # noqa
from pyvc.spec import Spec

MC = "eudoxia.workload.csv_io"
Prio = Enum("Priority")


def prepare(prog):
    from pyvc.extract import extract_block, extract_loop_body
    # one iteration of `for row_dict in reader:` of the generator batch_by_pipeline: the rebound locals are returned with the
    # verdict, `yield e` becomes `emitted.append(e)` (see pyvc/extract.py)
    try:
        extract_loop_body(prog, f"{MC}:CSVWorkloadReader.batch_by_pipeline", "group_row",
                          lambda n: ast.unparse(n.target) == "row_dict" and ast.unparse(n.iter) == "reader",
                          ["self", "row_dict", "current_batch", "current_pipeline_id", "emitted"],
                          outs=["current_batch", "current_pipeline_id"], yields_to="emitted")
    except KeyError:
        pass        # reported as unreachable on its own; the format-rule block below is independent
    try:
        # the statement after the loop of batch_by_pipeline: `if current_batch: ...; yield PipelineArrival(...)`
        is_flush = lambda s: isinstance(s, ast.If) and any(isinstance(x, ast.Yield) for x in ast.walk(s))
        extract_block(prog, f"{MC}:CSVWorkloadReader.batch_by_pipeline", "flush_row", is_flush, is_flush, ["self", "current_batch", "emitted"], "None",
                      yields_to="emitted")
    except KeyError:
        pass
    is_start = lambda s: isinstance(s, ast.If) and ast.unparse(s.test) == "not batch"
    belongs = lambda s: not (isinstance(s, ast.Assign) and ast.unparse(s.targets[0]) == "pipeline")
    return extract_block(prog, f"{MC}:CSVWorkloadReader.create_pipeline_from_batch", "batch_format", is_start, belongs, ["batch"], "priority")


def declare(S: Spec):
    S.cls("CSVOperatorRow", {"pipeline_id": STR, "arrival_seconds": Opt(REAL), "priority": STR, "operator_id": STR, "parents": STR,
                             "baseline_cpu_seconds": REAL, "cpu_scaling": STR, "memory_gb": Opt(REAL), "storage_read_gb": REAL},
          immutable=("pipeline_id", "arrival_seconds", "priority", "operator_id", "parents", "baseline_cpu_seconds", "cpu_scaling",
                     "memory_gb", "storage_read_gb"))
    # the format rules, written from the property statement
    S.pred("FirstRowOK", [("r", Ref("CSVOperatorRow"))],
           "r.priority != '' and r.arrival_seconds is not None and any(r.priority == pr.name for pr in Priority)")
    S.pred("LaterRowOK", [("r", Ref("CSVOperatorRow"))], "r.priority == '' and r.arrival_seconds is None")
    S.pred("BatchFormatOK", [("b", List(Ref("CSVOperatorRow")))],
           "len(b) > 0 and FirstRowOK(b[0]) and all(LaterRowOK(b[j]) for j in range(1, len(b)))"
           " and all(b[j].pipeline_id == b[0].pipeline_id for j in range(0, len(b)))")
    S.fn(f"{MC}:batch_format", owners=["C14"],
         params={"batch": List(Ref("CSVOperatorRow"))}, returns=Prio,
         locals={"pipeline_id": STR, "priority_str": STR, "priority": Prio, "i": INT, "row": Ref("CSVOperatorRow")},
         requires=["batch is not None", "all(r is not None for r in batch)"],
         ensures=[("accepted-only-if-the-format-rules-hold", "BatchFormatOK(batch)"),
                  ("priority-is-the-one-named-on-the-first-row", "result.name == batch[0].priority")],
         raises={"ValueError": ["not BatchFormatOK(batch)"], "KeyError": ["not BatchFormatOK(batch)"]},
         modifies=[],
         loops={0: dict(idx="k", inv=["k <= len(batch)", "len(batch) > 0", "any(batch[0].priority == pr.name for pr in Priority)",
                                      "implies(k > 0, FirstRowOK(batch[0]))",
                                      "all(LaterRowOK(batch[j]) for j in range(1, k))",
                                      "all(batch[j].pipeline_id == batch[0].pipeline_id for j in range(0, k))"])},
         note="rule-checking prefix of create_pipeline_from_batch; a refusal is a ValueError or (unknown priority name) a KeyError")


def declare2(S: Spec):
    """grouping of rows into pipelines (C14: same count and order; either of arrival / priority on a later row is refused):
    the reader closes a pipeline exactly when the pipeline id changes, so a later row of the same id - whatever it carries -
    reaches the format rules of batch_format together with the first row"""
    Row = Ref("CSVOperatorRow")
    S.cls("CSVWorkloadReader", {})
    S.fn(f"{MC}:CSVWorkloadReader._parse_row", params={"row_dict": Dict(STR, STR)}, returns=Row,
         requires=[], ensures=["result is not None"], raises={"ValueError": [], "KeyError": []}, modifies=[], allocates=True,
         note="assumed: parsing one csv.DictReader row yields a row tuple or raises (string to float conversion is not modelled)")
    S.fns[f"{MC}:CSVWorkloadReader._parse_row"].trusted = True
    S.fn(f"{MC}:CSVWorkloadReader.create_pipeline_from_batch", params={"batch": List(Row)}, returns=Ref("Pipeline"),
         requires=["batch is not None"], ensures=["result is not None", "BatchFormatOK(batch)"],
         raises={"ValueError": [], "KeyError": []}, modifies=[], allocates=True,
         note="assumed here: builds a new pipeline from the batch or refuses it; BatchFormatOK on normal return is the verified "
              "postcondition of its rule-checking prefix batch_format (the rest of the function does not touch the rows)")
    S.fns[f"{MC}:CSVWorkloadReader.create_pipeline_from_batch"].trusted = True
    S.pred("RunOK", [("b", List(Row)), ("pid", Opt(STR))],
           "b is not None and pid is not None and len(b) >= 1 and all(r is not None and r.pipeline_id == pid for r in b)")
    NEW = "result[1][len(result[1]) - 1]"
    S.fn(f"{MC}:group_row", owners=["C14"],
         params={"self": Ref("CSVWorkloadReader"), "row_dict": Dict(STR, STR), "current_batch": List(Row),
                 "current_pipeline_id": Opt(STR), "emitted": List(Ref("PipelineArrival"))},
         returns=Tuple(STR, List(Row), Opt(STR)),
         locals={"row": Row, "arrival_seconds": Opt(REAL), "pipeline": Ref("Pipeline")},
         requires=["self is not None and row_dict is not None and emitted is not None and current_batch is not None",
                   "current_batch is not emitted",
                   "implies(current_pipeline_id is not None, RunOK(current_batch, current_pipeline_id))"],
         ensures=[("always-moves-on", "result[0] == 'next'"),
                  ("the-open-batch-is-a-run-of-one-pipeline-id", "RunOK(result[1], result[2])"),
                  ("a-row-of-the-same-id-joins-the-open-batch-whatever-else-it-carries",
                   f"implies(old(current_pipeline_id) is not None and {NEW}.pipeline_id == old(current_pipeline_id),"
                   " result[1] is current_batch and len(result[1]) == old(len(current_batch)) + 1"
                   " and all(result[1][j] is old(current_batch[j]) for j in range(0, old(len(current_batch))))"
                   " and len(emitted) == old(len(emitted)))"),
                  ("a-row-of-another-id-closes-the-open-batch-as-one-pipeline",
                   f"implies(old(current_pipeline_id) is not None and {NEW}.pipeline_id != old(current_pipeline_id),"
                   " len(result[1]) == 1 and len(emitted) == old(len(emitted)) + 1"
                   " and emitted[len(emitted) - 1] is not None"
                   " and emitted[len(emitted) - 1].arrival_seconds == old(current_batch[0].arrival_seconds))"),
                  ("the-first-row-opens-a-batch", "implies(old(current_pipeline_id) is None, len(result[1]) == 1 and len(emitted) == old(len(emitted)))"),
                  ("pipelines-already-handed-out-stay", "all(emitted[j] is old(emitted[j]) for j in range(0, old(len(emitted))))")],
         raises={"ValueError": [], "KeyError": []},
         modifies=["contents(current_batch)", "contents(emitted)"], allocates=True,
         note="extracted: one iteration of `for row_dict in reader` of batch_by_pipeline; yield -> emitted.append")
    S.fn(f"{MC}:flush_row", owners=["C14"],
         params={"self": Ref("CSVWorkloadReader"), "current_batch": List(Row), "emitted": List(Ref("PipelineArrival"))},
         locals={"arrival_seconds": Opt(REAL), "pipeline": Ref("Pipeline")},
         requires=["self is not None and current_batch is not None and emitted is not None", "all(r is not None for r in current_batch)"],
         ensures=[("the-last-open-batch-becomes-a-pipeline-too",
                   "implies(len(current_batch) > 0, len(emitted) == old(len(emitted)) + 1 and emitted[len(emitted) - 1] is not None"
                   " and emitted[len(emitted) - 1].arrival_seconds == current_batch[0].arrival_seconds)"),
                  ("an-empty-file-yields-nothing", "implies(len(current_batch) == 0, len(emitted) == old(len(emitted)))"),
                  ("pipelines-already-handed-out-stay", "all(emitted[j] is old(emitted[j]) for j in range(0, old(len(emitted))))")],
         raises={"ValueError": [], "KeyError": []},
         modifies=["contents(emitted)"], allocates=True,
         note="extracted: the statement after the loop of batch_by_pipeline; yield -> emitted.append")

"""Contracts for eudoxia/workload/csv_io.py (C14): the format rules a trace must obey, as the reader enforces them.

The rule-checking prefix of CSVWorkloadReader.create_pipeline_from_batch (from `if not batch` up to, not including, the
construction of the Pipeline) is extracted mechanically on every run as batch_format(batch)."""
import ast
from pyvc.ty import *  # noqa
from pyvc.spec import Spec

MC = "eudoxia.workload.csv_io"
Prio = Enum("Priority")


def prepare(prog):
    from pyvc.extract import extract_block
    is_start = lambda s: isinstance(s, ast.If) and ast.unparse(s.test) == "not batch"
    belongs = lambda s: not (isinstance(s, ast.Assign) and ast.unparse(s.targets[0]) == "pipeline")
    return extract_block(prog, f"{MC}:CSVWorkloadReader.create_pipeline_from_batch", "batch_format", is_start, belongs, ["batch"], "priority")


def declare(S: Spec):
    S.cls("CSVOperatorRow", {"pipeline_id": STR, "arrival_seconds": Opt(REAL), "priority": STR, "operator_id": STR, "parents": STR,
                             "baseline_cpu_seconds": REAL, "cpu_scaling": STR, "memory_gb": Opt(REAL), "storage_read_gb": REAL},
          immutable=("pipeline_id", "arrival_seconds", "priority", "operator_id", "parents", "baseline_cpu_seconds", "cpu_scaling",
                     "memory_gb", "storage_read_gb"))
    # the format rules, written from the property statement
    S.pred("FirstRowOK", [("r", Ref("CSVOperatorRow"))],
           "r.priority != '' and r.arrival_seconds is not None and any(r.priority == pr.name for pr in Priority)")
    S.pred("LaterRowOK", [("r", Ref("CSVOperatorRow"))], "r.priority == '' and r.arrival_seconds is None")
    S.pred("BatchFormatOK", [("b", List(Ref("CSVOperatorRow")))],
           "len(b) > 0 and FirstRowOK(b[0]) and all(LaterRowOK(b[j]) for j in range(1, len(b)))"
           " and all(b[j].pipeline_id == b[0].pipeline_id for j in range(0, len(b)))")
    S.fn(f"{MC}:batch_format", owners=["C14"],
         params={"batch": List(Ref("CSVOperatorRow"))}, returns=Prio,
         locals={"pipeline_id": STR, "priority_str": STR, "priority": Prio, "i": INT, "row": Ref("CSVOperatorRow")},
         requires=["batch is not None", "all(r is not None for r in batch)"],
         ensures=[("accepted-only-if-the-format-rules-hold", "BatchFormatOK(batch)"),
                  ("priority-is-the-one-named-on-the-first-row", "result.name == batch[0].priority")],
         raises={"ValueError": ["not BatchFormatOK(batch)"], "KeyError": ["not BatchFormatOK(batch)"]},
         modifies=[],
         loops={0: dict(idx="k", inv=["k <= len(batch)", "len(batch) > 0", "any(batch[0].priority == pr.name for pr in Priority)",
                                      "implies(k > 0, FirstRowOK(batch[0]))",
                                      "all(LaterRowOK(batch[j]) for j in range(1, k))",
                                      "all(batch[j].pipeline_id == batch[0].pipeline_id for j in range(0, k))"])},
         note="rule-checking prefix of create_pipeline_from_batch; a refusal is a ValueError or (unknown priority name) a KeyError")

"""Contracts for trace replay (C13): WorkloadTrace over the batches its reader yields."""
from pyvc.ty import *  # noqa
from pyvc.spec import Spec

MW = "eudoxia.workload.workload"


MC = "eudoxia.workload.csv_io"


def prepare(prog):
    """one iteration of `for pipeline_arrival in self.batch_by_pipeline():` of the generator batch_by_arrival: the rebound locals
    are returned with the verdict, `yield e` becomes `emitted.append(e)` (see pyvc/extract.py)"""
    import ast
    from pyvc.extract import extract_loop_body
    return extract_loop_body(prog, f"{MC}:CSVWorkloadReader.batch_by_arrival", "group_arrival",
                             lambda n: ast.unparse(n.target) == "pipeline_arrival" and "batch_by_pipeline" in ast.unparse(n.iter),
                             ["self", "pipeline_arrival", "current_batch", "current_arrival_seconds", "emitted"],
                             outs=["current_batch", "current_arrival_seconds"], yields_to="emitted")


def declare3(S: Spec):
    """grouping of equal arrival times (C13: pipelines with equal arrival keep their file order; every batch handed to the
    replay is non-empty and of one arrival time - the ArrivalBatchOK that run_one_tick's invariant assumes of its reader)"""
    PA = Ref("PipelineArrival")
    S.pred("ArrivalRun", [("b", List(PA)), ("a", Opt(REAL))],
           "b is not None and a is not None and len(b) >= 1 and all(pa is not None and pa.arrival_seconds == a for pa in b)")
    LASTB = "emitted[len(emitted) - 1]"
    CLOSE = "old(current_arrival_seconds) is not None and pipeline_arrival.arrival_seconds != old(current_arrival_seconds)"
    S.fn(f"{MC}:group_arrival", owners=["C13"],
         params={"self": Ref("CSVWorkloadReader"), "pipeline_arrival": PA, "current_batch": List(PA),
                 "current_arrival_seconds": Opt(REAL), "emitted": List(List(PA))},
         returns=Tuple(STR, List(PA), Opt(REAL)),
         requires=["self is not None and pipeline_arrival is not None and emitted is not None and current_batch is not None",
                   "all(b is not current_batch for b in emitted)",
                   "implies(current_arrival_seconds is not None, ArrivalRun(current_batch, current_arrival_seconds))"],
         ensures=[("always-moves-on", "result[0] == 'next'"),
                  ("the-open-batch-has-one-arrival-time", "ArrivalRun(result[1], result[2])"),
                  ("the-new-pipeline-is-last-in-the-open-batch", "result[1][len(result[1]) - 1] is pipeline_arrival"),
                  ("an-equal-arrival-joins-the-open-batch-behind-the-earlier-ones",
                   "implies(old(current_arrival_seconds) is not None and pipeline_arrival.arrival_seconds == old(current_arrival_seconds),"
                   " result[1] is current_batch and len(result[1]) == old(len(current_batch)) + 1"
                   " and all(result[1][j] is old(current_batch[j]) for j in range(0, old(len(current_batch))))"
                   " and len(emitted) == old(len(emitted)))"),
                  ("another-arrival-time-hands-out-the-open-batch-unchanged",
                   f"implies({CLOSE}, len(result[1]) == 1 and len(emitted) == old(len(emitted)) + 1 and {LASTB} is old(current_batch)"
                   f" and len({LASTB}) == old(len(current_batch)) and all({LASTB}[j] is old(current_batch[j]) for j in range(0, len({LASTB}))))"),
                  ("a-batch-handed-out-is-non-empty-and-of-one-arrival-time", f"implies({CLOSE}, ArrivalBatchOK({LASTB}))"),
                  ("the-next-batch-has-another-arrival-time", f"implies({CLOSE}, {LASTB}[0].arrival_seconds != result[2])"),
                  ("the-first-pipeline-opens-a-batch",
                   "implies(old(current_arrival_seconds) is None, len(result[1]) == 1 and len(emitted) == old(len(emitted)))"),
                  ("batches-already-handed-out-stay", "all(emitted[j] is old(emitted[j]) for j in range(0, old(len(emitted))))")],
         modifies=["contents(current_batch)", "contents(emitted)"], allocates=True,
         note="extracted: one iteration of the loop of batch_by_arrival over the pipelines of batch_by_pipeline; yield -> emitted.append")


def declare(S: Spec):
    S.cls("PipelineArrival", {"arrival_seconds": REAL, "pipeline": Ref("Pipeline")}, immutable=("arrival_seconds", "pipeline"))
    # the reader's generator: ghost view = the batches it has not yielded yet
    S.cls("BatchGen", {"g_remaining": SeqV(List(Ref("PipelineArrival")))})
    S.cls("WorkloadTrace", {"reader": Ref("WorkloadReader"), "ticks_per_second": INT, "tick_length_secs": REAL, "current_tick": INT,
                            "next_batch": List(Ref("PipelineArrival")), "_arrival_iterator": Ref("BatchGen")},
          immutable=("reader", "ticks_per_second", "tick_length_secs", "_arrival_iterator"))
    S.fn("next_of:BatchGen", params={}, returns=List(Ref("PipelineArrival")),
         requires=["self is not None"],
         ensures=["len(old(self.g_remaining)) >= 1", "result is old(self.g_remaining)[0]", "self.g_remaining == drop(old(self.g_remaining), 1)"],
         raises={"StopIteration": ["len(self.g_remaining) == 0", "self.g_remaining == old(self.g_remaining)"]},
         modifies=["self.g_remaining"],
         note="assumed protocol of a Python generator that yields a fixed sequence of batches (the csv reader's batch_by_arrival)")
    S.fns["next_of:BatchGen"].trusted = True

    # a batch is due at tick t when its arrival time is not after the start of tick t (t / ticks_per_second)
    S.pred("Due", [("w", Ref("WorkloadTrace")), ("b", List(Ref("PipelineArrival"))), ("t", INT)],
           "b[0].arrival_seconds <= rdiv(t, w.ticks_per_second)")
    S.pred("ArrivalBatchOK", [("b", List(Ref("PipelineArrival")))],
           "b is not None and len(b) >= 1 and all(pa is not None and pa.arrival_seconds == b[0].arrival_seconds for pa in b)")
    S.pred("TraceInv", [("w", Ref("WorkloadTrace"))],
           "w._arrival_iterator is not None and w.ticks_per_second >= 1 and w.tick_length_secs == rdiv(1.0, w.ticks_per_second)"
           " and w.current_tick >= 0 and implies(w.next_batch is None, len(w._arrival_iterator.g_remaining) == 0)"
           " and implies(w.next_batch is not None, ArrivalBatchOK(w.next_batch))"
           " and all(ArrivalBatchOK(b) for b in w._arrival_iterator.g_remaining)"
           # rows in arrival order
           " and implies(w.next_batch is not None, all(w.next_batch[0].arrival_seconds <= b[0].arrival_seconds for b in w._arrival_iterator.g_remaining))"
           " and all(all(implies(i < j, w._arrival_iterator.g_remaining[i][0].arrival_seconds <= w._arrival_iterator.g_remaining[j][0].arrival_seconds)"
           "         for j in range(0, len(w._arrival_iterator.g_remaining))) for i in range(0, len(w._arrival_iterator.g_remaining)))")

    S.fn(f"{MW}:WorkloadTrace.advance_to_next_batch", owners=["C13"],
         requires=["self._arrival_iterator is not None"],
         ensures=[("takes-next", "implies(len(old(self._arrival_iterator.g_remaining)) >= 1, self.next_batch is old(self._arrival_iterator.g_remaining)[0]"
                                 " and self._arrival_iterator.g_remaining == drop(old(self._arrival_iterator.g_remaining), 1))"),
                  ("none-at-end", "implies(len(old(self._arrival_iterator.g_remaining)) == 0, self.next_batch is None"
                                  " and self._arrival_iterator.g_remaining == old(self._arrival_iterator.g_remaining))")],
         modifies=["self.next_batch", "self._arrival_iterator.g_remaining"])

    S.fn(f"{MW}:WorkloadTrace.run_one_tick", owners=["C13"],
         returns=List(Ref("Pipeline")),
         requires=["TraceInv(self)"],
         ensures=[("tick-advances", "self.current_tick == old(self.current_tick) + 1"),
                  ("invariant-kept", "TraceInv(self)"),
                  ("nothing-early", "implies(self.next_batch is not None, not Due(self, self.next_batch, old(self.current_tick)))"),
                  ("everything-due-delivered", "all(not Due(self, b, old(self.current_tick)) for b in self._arrival_iterator.g_remaining)"),
                  ("delivered-were-pending-and-due",
                   "all(any(pa.pipeline is p and Due(self, b, old(self.current_tick)) for pa in b for b in pending_old) for p in result)"
                   .replace(" for pa in b for b in pending_old", "") if False else
                   "all(any(pa.pipeline is p for pa in old(seq(self.next_batch))) or"
                   " any(any(pa.pipeline is p for pa in b) and Due(self, b, old(self.current_tick)) for b in old(self._arrival_iterator.g_remaining))"
                   " for p in result)"),
                  ("pending-only-shrinks", "all(b in old(self._arrival_iterator.g_remaining) for b in self._arrival_iterator.g_remaining)")],
         modifies=["self.next_batch", "self._arrival_iterator.g_remaining", "self.current_tick"],
         allocates=True,
         locals={"pipelines_to_return": List(Ref("Pipeline"))},
         loops={0: dict(header="while self.next_batch is not None and self.get_next_batch_tick() <= self.current_tick",
                        inv=["TraceInv(self)", "self.current_tick == old(self.current_tick)",
                             "all(b in old(self._arrival_iterator.g_remaining) for b in self._arrival_iterator.g_remaining)",
                             "implies(self.next_batch is not None, self.next_batch is old(self.next_batch) or self.next_batch in old(self._arrival_iterator.g_remaining))",
                             "all(any(pa.pipeline is p for pa in old(seq(self.next_batch))) or"
                             " any(any(pa.pipeline is p for pa in b) and Due(self, b, old(self.current_tick)) for b in old(self._arrival_iterator.g_remaining))"
                             " for p in pipelines_to_return)"]),
                1: dict(idx="k", header="for pipeline_arrival in self.next_batch",
                        inv=["TraceInv(self)", "self.current_tick == old(self.current_tick)",
                             "all(any(pa.pipeline is p for pa in old(seq(self.next_batch))) or"
                             " any(any(pa.pipeline is p for pa in b) and Due(self, b, old(self.current_tick)) for b in old(self._arrival_iterator.g_remaining))"
                             " or any(pa.pipeline is p for pa in self.next_batch) for p in pipelines_to_return)"])})

"""Contracts for trace replay (C13): WorkloadTrace over the batches its reader yields."""
from pyvc.ty import *  # noqa
from pyvc.spec import Spec

MW = "eudoxia.workload.workload"


def declare(S: Spec):
    S.cls("PipelineArrival", {"arrival_seconds": REAL, "pipeline": Ref("Pipeline")}, immutable=("arrival_seconds", "pipeline"))
    # the reader's generator: ghost view = the batches it has not yielded yet
    S.cls("BatchGen", {"g_remaining": SeqV(List(Ref("PipelineArrival")))})
    S.cls("WorkloadTrace", {"reader": Ref("WorkloadReader"), "ticks_per_second": INT, "tick_length_secs": REAL, "current_tick": INT,
                            "next_batch": List(Ref("PipelineArrival")), "_arrival_iterator": Ref("BatchGen")},
          immutable=("reader", "ticks_per_second", "tick_length_secs", "_arrival_iterator"))
    S.fn("next_of:BatchGen", params={}, returns=List(Ref("PipelineArrival")),
         requires=["self is not None"],
         ensures=["len(old(self.g_remaining)) >= 1", "result is old(self.g_remaining)[0]", "self.g_remaining == drop(old(self.g_remaining), 1)"],
         raises={"StopIteration": ["len(self.g_remaining) == 0", "self.g_remaining == old(self.g_remaining)"]},
         modifies=["self.g_remaining"],
         note="assumed protocol of a Python generator that yields a fixed sequence of batches (the csv reader's batch_by_arrival)")
    S.fns["next_of:BatchGen"].trusted = True

    # a batch is due at tick t when its arrival time is not after the start of tick t (t / ticks_per_second)
    S.pred("Due", [("w", Ref("WorkloadTrace")), ("b", List(Ref("PipelineArrival"))), ("t", INT)],
           "b[0].arrival_seconds <= rdiv(t, w.ticks_per_second)")
    S.pred("ArrivalBatchOK", [("b", List(Ref("PipelineArrival")))],
           "b is not None and len(b) >= 1 and all(pa is not None and pa.arrival_seconds == b[0].arrival_seconds for pa in b)")
    S.pred("TraceInv", [("w", Ref("WorkloadTrace"))],
           "w._arrival_iterator is not None and w.ticks_per_second >= 1 and w.tick_length_secs == rdiv(1.0, w.ticks_per_second)"
           " and w.current_tick >= 0 and implies(w.next_batch is None, len(w._arrival_iterator.g_remaining) == 0)"
           " and implies(w.next_batch is not None, ArrivalBatchOK(w.next_batch))"
           " and all(ArrivalBatchOK(b) for b in w._arrival_iterator.g_remaining)"
           # rows in arrival order
           " and implies(w.next_batch is not None, all(w.next_batch[0].arrival_seconds <= b[0].arrival_seconds for b in w._arrival_iterator.g_remaining))"
           " and all(all(implies(i < j, w._arrival_iterator.g_remaining[i][0].arrival_seconds <= w._arrival_iterator.g_remaining[j][0].arrival_seconds)"
           "         for j in range(0, len(w._arrival_iterator.g_remaining))) for i in range(0, len(w._arrival_iterator.g_remaining)))")

    S.fn(f"{MW}:WorkloadTrace.advance_to_next_batch", owners=["C13"],
         requires=["self._arrival_iterator is not None"],
         ensures=[("takes-next", "implies(len(old(self._arrival_iterator.g_remaining)) >= 1, self.next_batch is old(self._arrival_iterator.g_remaining)[0]"
                                 " and self._arrival_iterator.g_remaining == drop(old(self._arrival_iterator.g_remaining), 1))"),
                  ("none-at-end", "implies(len(old(self._arrival_iterator.g_remaining)) == 0, self.next_batch is None"
                                  " and self._arrival_iterator.g_remaining == old(self._arrival_iterator.g_remaining))")],
         modifies=["self.next_batch", "self._arrival_iterator.g_remaining"])

    S.fn(f"{MW}:WorkloadTrace.run_one_tick", owners=["C13"],
         returns=List(Ref("Pipeline")),
         requires=["TraceInv(self)"],
         ensures=[("tick-advances", "self.current_tick == old(self.current_tick) + 1"),
                  ("invariant-kept", "TraceInv(self)"),
                  ("nothing-early", "implies(self.next_batch is not None, not Due(self, self.next_batch, old(self.current_tick)))"),
                  ("everything-due-delivered", "all(not Due(self, b, old(self.current_tick)) for b in self._arrival_iterator.g_remaining)"),
                  ("delivered-were-pending-and-due",
                   "all(any(pa.pipeline is p and Due(self, b, old(self.current_tick)) for pa in b for b in pending_old) for p in result)"
                   .replace(" for pa in b for b in pending_old", "") if False else
                   "all(any(pa.pipeline is p for pa in old(seq(self.next_batch))) or"
                   " any(any(pa.pipeline is p for pa in b) and Due(self, b, old(self.current_tick)) for b in old(self._arrival_iterator.g_remaining))"
                   " for p in result)"),
                  ("pending-only-shrinks", "all(b in old(self._arrival_iterator.g_remaining) for b in self._arrival_iterator.g_remaining)")],
         modifies=["self.next_batch", "self._arrival_iterator.g_remaining", "self.current_tick"],
         allocates=True,
         locals={"pipelines_to_return": List(Ref("Pipeline"))},
         loops={0: dict(header="while self.next_batch is not None and self.get_next_batch_tick() <= self.current_tick",
                        inv=["TraceInv(self)", "self.current_tick == old(self.current_tick)",
                             "all(b in old(self._arrival_iterator.g_remaining) for b in self._arrival_iterator.g_remaining)",
                             "implies(self.next_batch is not None, self.next_batch is old(self.next_batch) or self.next_batch in old(self._arrival_iterator.g_remaining))",
                             "all(any(pa.pipeline is p for pa in old(seq(self.next_batch))) or"
                             " any(any(pa.pipeline is p for pa in b) and Due(self, b, old(self.current_tick)) for b in old(self._arrival_iterator.g_remaining))"
                             " for p in pipelines_to_return)"]),
                1: dict(idx="k", header="for pipeline_arrival in self.next_batch",
                        inv=["TraceInv(self)", "self.current_tick == old(self.current_tick)",
                             "all(any(pa.pipeline is p for pa in old(seq(self.next_batch))) or"
                             " any(any(pa.pipeline is p for pa in b) and Due(self, b, old(self.current_tick)) for b in old(self._arrival_iterator.g_remaining))"
                             " or any(pa.pipeline is p for pa in self.next_batch) for p in pipelines_to_return)"])})

"""Contracts for trace replay (C13): WorkloadTrace over the batches its reader yields."""
from pyvc.ty import *  # noqa
from pyvc.spec import Spec

MW = "eudoxia.workload.workload"


MC = "eudoxia.workload.csv_io"


def prepare(prog):
    """one iteration of `for pipeline_arrival in self.batch_by_pipeline():` of the generator batch_by_arrival: the rebound locals
    are returned with the verdict, `yield e` becomes `emitted.append(e)` (see pyvc/extract.py)"""
    import ast
    from pyvc.extract import extract_loop_body, extract_block
    try:
        prepare_ticks(prog)
    except KeyError:
        pass        # run_ticks is then reported as unreachable on its own
    try:
        # the first top-level `if` of batch_by_arrival that yields (the statement after the loop: `if current_batch: yield current_batch`)
        is_flush = lambda s: isinstance(s, ast.If) and any(isinstance(x, ast.Yield) for x in ast.walk(s))
        extract_block(prog, f"{MC}:CSVWorkloadReader.batch_by_arrival", "flush_arrival", is_flush, is_flush, ["current_batch", "emitted"], "None",
                      yields_to="emitted")
    except KeyError:
        pass
    return extract_loop_body(prog, f"{MC}:CSVWorkloadReader.batch_by_arrival", "group_arrival",
                             lambda n: ast.unparse(n.target) == "pipeline_arrival" and "batch_by_pipeline" in ast.unparse(n.iter),
                             ["self", "pipeline_arrival", "current_batch", "current_arrival_seconds", "emitted"],
                             outs=["current_batch", "current_arrival_seconds"], yields_to="emitted")


def prepare_ticks(prog):
    """`max_ticks = int(params["duration"] * params["ticks_per_second"])` of run_simulator as run_ticks(params)"""
    import ast
    from pyvc.extract import extract_block
    is_start = lambda s: isinstance(s, ast.Assign) and ast.unparse(s.targets[0]) == "max_ticks"
    seen = []
    def one(s):
        seen.append(s)
        return len(seen) == 1
    q = extract_block(prog, "eudoxia.simulator:run_simulator", "run_ticks", is_start, one, ["params"], "max_ticks")
    # the arrival time gentrace writes for the pipelines of one tick: the assignment(s) to arrival_seconds at the head of the tick loop
    is_arr = lambda s: isinstance(s, (ast.Assign, ast.AugAssign)) and "arrival_seconds" in [ast.unparse(t) for t in (s.targets if isinstance(s, ast.Assign) else [s.target])]
    try:
        extract_block(prog, f"{MC}:WorkloadTraceGenerator.generate_rows", "gen_arrival", is_arr, is_arr, ["self", "tick"], "arrival_seconds")
    except KeyError:
        pass
    return q


def declare2(S: Spec):
    """`run` and `gentrace` cover the same ticks (C13: a generated trace replays what the generator produced, up to the run's end):
    both compute floor(duration x ticks_per_second), and the trace generator's tick length is 1 / ticks_per_second"""
    S.cls("Workload", {})
    S.cls("WorkloadTraceGenerator", {"workload": Ref("Workload"), "ticks_per_second": INT, "tick_length_secs": REAL, "max_ticks": INT})
    S.fn(f"{MC}:WorkloadTraceGenerator.__init__", owners=["C13"],
         params={"workload": Ref("Workload"), "ticks_per_second": INT, "duration_secs": REAL},
         requires=["ticks_per_second >= 1", "duration_secs >= 0"],
         ensures=[("gentrace-covers-the-ticks-of-the-run", "self.max_ticks == floor(rmul(duration_secs, ticks_per_second))"),
                  ("tick-length", "self.tick_length_secs == rdiv(1.0, ticks_per_second)"),
                  ("tick-rate-kept", "self.ticks_per_second == ticks_per_second and self.workload is workload")],
         modifies=["self.workload", "self.ticks_per_second", "self.tick_length_secs", "self.max_ticks"],
         note="real arithmetic (A-REAL); the float behaviour of tick x tick_length is the bounded gentrace round trip")
    S.fn(f"{MC}:gen_arrival", owners=["C13"], params={"self": Ref("WorkloadTraceGenerator"), "tick": INT}, returns=REAL,
         requires=["self is not None and self.ticks_per_second >= 1 and self.tick_length_secs == rdiv(1.0, self.ticks_per_second)", "tick >= 0"],
         ensures=[("written-arrival-is-the-start-of-the-generating-tick", "result == rdiv(tick, self.ticks_per_second)")],
         modifies=[], note="extracted from generate_rows: the arrival time written for the pipelines of tick `tick` (real arithmetic; "
                           "that tick x (1/tps) maps back to `tick` in floating point is the bounded grid, finding D4)")
    S.fn("eudoxia.simulator:run_ticks", owners=["C13"], params={"params": Dict(STR, REAL)}, returns=INT,
         requires=["params is not None and 'duration' in params and 'ticks_per_second' in params",
                   "params['duration'] >= 0 and params['ticks_per_second'] >= 1"],
         ensures=[("the-run-covers-floor-of-duration-times-rate", "result == floor(rmul(params['duration'], params['ticks_per_second']))")],
         modifies=[], note="extracted from run_simulator: the assignment of max_ticks")


def declare3(S: Spec):
    """grouping of equal arrival times (C13: pipelines with equal arrival keep their file order; every batch handed to the
    replay is non-empty and of one arrival time - the ArrivalBatchOK that run_one_tick's invariant assumes of its reader)"""
    PA = Ref("PipelineArrival")
    S.pred("ArrivalRun", [("b", List(PA)), ("a", Opt(REAL))],
           "b is not None and a is not None and len(b) >= 1 and all(pa is not None and pa.arrival_seconds == a for pa in b)")
    LASTB = "emitted[len(emitted) - 1]"
    CLOSE = "old(current_arrival_seconds) is not None and pipeline_arrival.arrival_seconds != old(current_arrival_seconds)"
    S.fn(f"{MC}:group_arrival", owners=["C13"],
         params={"self": Ref("CSVWorkloadReader"), "pipeline_arrival": PA, "current_batch": List(PA),
                 "current_arrival_seconds": Opt(REAL), "emitted": List(List(PA))},
         returns=Tuple(STR, List(PA), Opt(REAL)),
         requires=["self is not None and pipeline_arrival is not None and emitted is not None and current_batch is not None",
                   "all(b is not current_batch for b in emitted)",
                   "implies(current_arrival_seconds is not None, ArrivalRun(current_batch, current_arrival_seconds))"],
         ensures=[("always-moves-on", "result[0] == 'next'"),
                  ("the-open-batch-has-one-arrival-time", "ArrivalRun(result[1], result[2])"),
                  ("the-new-pipeline-is-last-in-the-open-batch", "result[1][len(result[1]) - 1] is pipeline_arrival"),
                  ("an-equal-arrival-joins-the-open-batch-behind-the-earlier-ones",
                   "implies(old(current_arrival_seconds) is not None and pipeline_arrival.arrival_seconds == old(current_arrival_seconds),"
                   " result[1] is current_batch and len(result[1]) == old(len(current_batch)) + 1"
                   " and all(result[1][j] is old(current_batch[j]) for j in range(0, old(len(current_batch))))"
                   " and len(emitted) == old(len(emitted)))"),
                  ("another-arrival-time-hands-out-the-open-batch-unchanged",
                   f"implies({CLOSE}, len(result[1]) == 1 and len(emitted) == old(len(emitted)) + 1 and {LASTB} is old(current_batch)"
                   f" and len({LASTB}) == old(len(current_batch)) and all({LASTB}[j] is old(current_batch[j]) for j in range(0, len({LASTB}))))"),
                  ("a-batch-handed-out-is-non-empty-and-of-one-arrival-time", f"implies({CLOSE}, ArrivalBatchOK({LASTB}))"),
                  ("the-next-batch-has-another-arrival-time", f"implies({CLOSE}, {LASTB}[0].arrival_seconds != result[2])"),
                  ("the-first-pipeline-opens-a-batch",
                   "implies(old(current_arrival_seconds) is None, len(result[1]) == 1 and len(emitted) == old(len(emitted)))"),
                  ("batches-already-handed-out-stay", "all(emitted[j] is old(emitted[j]) for j in range(0, old(len(emitted))))")],
         modifies=["contents(current_batch)", "contents(emitted)"], allocates=True,
         note="extracted: one iteration of the loop of batch_by_arrival over the pipelines of batch_by_pipeline; yield -> emitted.append")
    S.fn(f"{MC}:flush_arrival", owners=["C13"], params={"current_batch": List(PA), "emitted": List(List(PA))},
         requires=["current_batch is not None and emitted is not None"],
         ensures=[("the-last-open-batch-is-handed-out-too",
                   f"implies(len(current_batch) > 0, len(emitted) == old(len(emitted)) + 1 and {LASTB} is current_batch)"),
                  ("an-empty-trace-hands-out-nothing", "implies(len(current_batch) == 0, len(emitted) == old(len(emitted)))"),
                  ("batches-already-handed-out-stay", "all(emitted[j] is old(emitted[j]) for j in range(0, old(len(emitted))))"),
                  ("the-batch-itself-unchanged", "len(current_batch) == old(len(current_batch)) and all(current_batch[j] is old(current_batch[j]) for j in range(0, len(current_batch)))")],
         modifies=["contents(emitted)"],
         note="extracted: the statement after the loop of batch_by_arrival; yield -> emitted.append")


def declare(S: Spec):
    S.cls("PipelineArrival", {"arrival_seconds": REAL, "pipeline": Ref("Pipeline")}, immutable=("arrival_seconds", "pipeline"))
    # the reader's generator: ghost view = the batches it has not yielded yet
    S.cls("BatchGen", {"g_remaining": SeqV(List(Ref("PipelineArrival")))})
    S.cls("WorkloadTrace", {"reader": Ref("WorkloadReader"), "ticks_per_second": INT, "tick_length_secs": REAL, "current_tick": INT,
                            "next_batch": List(Ref("PipelineArrival")), "_arrival_iterator": Ref("BatchGen")},
          immutable=("reader", "ticks_per_second", "tick_length_secs", "_arrival_iterator"))
    S.fn("next_of:BatchGen", params={}, returns=List(Ref("PipelineArrival")),
         requires=["self is not None"],
         ensures=["len(old(self.g_remaining)) >= 1", "result is old(self.g_remaining)[0]", "self.g_remaining == drop(old(self.g_remaining), 1)"],
         raises={"StopIteration": ["len(self.g_remaining) == 0", "self.g_remaining == old(self.g_remaining)"]},
         modifies=["self.g_remaining"],
         note="assumed protocol of a Python generator that yields a fixed sequence of batches (the csv reader's batch_by_arrival)")
    S.fns["next_of:BatchGen"].trusted = True

    # a batch is due at tick t when its arrival time is not after the start of tick t (t / ticks_per_second)
    S.pred("Due", [("w", Ref("WorkloadTrace")), ("b", List(Ref("PipelineArrival"))), ("t", INT)],
           "b[0].arrival_seconds <= rdiv(t, w.ticks_per_second)")
    S.pred("ArrivalBatchOK", [("b", List(Ref("PipelineArrival")))],
           "b is not None and len(b) >= 1 and all(pa is not None and pa.arrival_seconds == b[0].arrival_seconds for pa in b)")
    S.pred("TraceInv", [("w", Ref("WorkloadTrace"))],
           "w._arrival_iterator is not None and w.ticks_per_second >= 1 and w.tick_length_secs == rdiv(1.0, w.ticks_per_second)"
           " and w.current_tick >= 0 and implies(w.next_batch is None, len(w._arrival_iterator.g_remaining) == 0)"
           " and implies(w.next_batch is not None, ArrivalBatchOK(w.next_batch))"
           " and all(ArrivalBatchOK(b) for b in w._arrival_iterator.g_remaining)"
           # rows in arrival order
           " and implies(w.next_batch is not None, all(w.next_batch[0].arrival_seconds <= b[0].arrival_seconds for b in w._arrival_iterator.g_remaining))"
           " and all(all(implies(i < j, w._arrival_iterator.g_remaining[i][0].arrival_seconds <= w._arrival_iterator.g_remaining[j][0].arrival_seconds)"
           "         for j in range(0, len(w._arrival_iterator.g_remaining))) for i in range(0, len(w._arrival_iterator.g_remaining)))")

    S.fn(f"{MW}:WorkloadTrace.advance_to_next_batch", owners=["C13"],
         requires=["self._arrival_iterator is not None"],
         ensures=[("takes-next", "implies(len(old(self._arrival_iterator.g_remaining)) >= 1, self.next_batch is old(self._arrival_iterator.g_remaining)[0]"
                                 " and self._arrival_iterator.g_remaining == drop(old(self._arrival_iterator.g_remaining), 1))"),
                  ("none-at-end", "implies(len(old(self._arrival_iterator.g_remaining)) == 0, self.next_batch is None"
                                  " and self._arrival_iterator.g_remaining == old(self._arrival_iterator.g_remaining))")],
         modifies=["self.next_batch", "self._arrival_iterator.g_remaining"])

    S.fn(f"{MW}:WorkloadTrace.run_one_tick", owners=["C13"],
         returns=List(Ref("Pipeline")),
         requires=["TraceInv(self)"],
         ensures=[("tick-advances", "self.current_tick == old(self.current_tick) + 1"),
                  ("invariant-kept", "TraceInv(self)"),
                  ("nothing-early", "implies(self.next_batch is not None, not Due(self, self.next_batch, old(self.current_tick)))"),
                  ("everything-due-delivered", "all(not Due(self, b, old(self.current_tick)) for b in self._arrival_iterator.g_remaining)"),
                  ("delivered-were-pending-and-due",
                   "all(any(pa.pipeline is p and Due(self, b, old(self.current_tick)) for pa in b for b in pending_old) for p in result)"
                   .replace(" for pa in b for b in pending_old", "") if False else
                   "all(any(pa.pipeline is p for pa in old(seq(self.next_batch))) or"
                   " any(any(pa.pipeline is p for pa in b) and Due(self, b, old(self.current_tick)) for b in old(self._arrival_iterator.g_remaining))"
                   " for p in result)"),
                  ("pending-only-shrinks", "all(b in old(self._arrival_iterator.g_remaining) for b in self._arrival_iterator.g_remaining)")],
         modifies=["self.next_batch", "self._arrival_iterator.g_remaining", "self.current_tick"],
         allocates=True,
         locals={"pipelines_to_return": List(Ref("Pipeline"))},
         loops={0: dict(header="while self.next_batch is not None and self.get_next_batch_tick() <= self.current_tick",
                        inv=["TraceInv(self)", "self.current_tick == old(self.current_tick)",
                             "all(b in old(self._arrival_iterator.g_remaining) for b in self._arrival_iterator.g_remaining)",
                             "implies(self.next_batch is not None, self.next_batch is old(self.next_batch) or self.next_batch in old(self._arrival_iterator.g_remaining))",
                             "all(any(pa.pipeline is p for pa in old(seq(self.next_batch))) or"
                             " any(any(pa.pipeline is p for pa in b) and Due(self, b, old(self.current_tick)) for b in old(self._arrival_iterator.g_remaining))"
                             " for p in pipelines_to_return)"]),
                1: dict(idx="k", header="for pipeline_arrival in self.next_batch",
                        inv=["TraceInv(self)", "self.current_tick == old(self.current_tick)",
                             "all(any(pa.pipeline is p for pa in old(seq(self.next_batch))) or"
                             " any(any(pa.pipeline is p for pa in b) and Due(self, b, old(self.current_tick)) for b in old(self._arrival_iterator.g_remaining))"
                             " or any(pa.pipeline is p for pa in self.next_batch) for p in pipelines_to_return)"])})

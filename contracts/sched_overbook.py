"""Contracts for the overbook scheduler (C18, C08)."""
from pyvc.ty import *  # noqa
from pyvc.spec import Spec

MO = "eudoxia.scheduler.overbook"


def declare(S: Spec):
    S.cls("Scheduler", {"op_queue": List(Ref("Operator")), "pipeline_failures": DefaultDict(STR, INT), "avail_cpus": Dict(INT, REAL)})
    S.pred("SnapshotOK", [("s", Ref("Scheduler"))],
           "s.avail_cpus is not None and nodup(keys(s.avail_cpus)) and ExecShape(s.executor)"
           " and all(0 <= k and k < len(s.executor.pools) and s.executor.pools[k].max_ram_pool > 0 for k in keys(s.avail_cpus))")
    # C18: one ready operator, one CPU, the whole pool's RAM
    S.pred("OverbookAsg", [("s", Ref("Scheduler")), ("a", Ref("Assignment"))],
           "a is not None and a.ops is not None and len(a.ops) == 1 and a.cpu == 1"
           " and 0 <= a.pool_id and a.pool_id < len(s.executor.pools) and a.ram == s.executor.pools[a.pool_id].max_ram_pool"
           " and state(a.ops[0]) == OperatorState.ASSIGNED")

    S.fn(f"{MO}:try_make_assignment", owners=["C18", "C08"],
         params={"s": Ref("Scheduler"), "op": Ref("Operator")},
         returns=Ref("Assignment"),
         requires=["s is not None", "SnapshotOK(s)", "GI1()", "WFop(op)", "state(op) in ASSIGNABLE_STATES"],
         ensures=[("none-iff-no-free-cpu", "implies(result is None, all(s.avail_cpus[k] < 1 for k in keys(s.avail_cpus))"
                                           " and vals(s.avail_cpus) == old(vals(s.avail_cpus)) and state(op) == old(state(op)))"),
                  ("one-op-one-cpu-full-ram", "implies(result is not None, fresh(result) and OverbookAsg(s, result) and result.ops[0] is op"
                                              " and result.pool_id in s.avail_cpus"
                                              " and old(s.avail_cpus[result.pool_id]) >= 1"
                                              " and vals(s.avail_cpus) == store(old(vals(s.avail_cpus)), result.pool_id, old(s.avail_cpus[result.pool_id]) - 1))"),
                  ("snapshot-keys-kept", "keys(s.avail_cpus) == old(keys(s.avail_cpus))"),
                  ("others-kept", "all(state(o) == old(state(o)) for o in every('Operator') if o is not op)"),
                  ("I1", "GI1()")],
         modifies=["values(op.pipeline._runtime_status.operator_states)", "values(op.pipeline._runtime_status.state_counts)",
                   "values(s.avail_cpus)"],
         allocates=True,
         loops={0: dict(idx="k", header="for (pool_id, avail) in s.avail_cpus.items()", unfold=["keys(s.avail_cpus)"],
                        inv=["k <= len(keys(s.avail_cpus))",
                             "all(s.avail_cpus[keys(s.avail_cpus)[j]] < 1 for j in range(0, k))"])})


def declare2(S: Spec):
    S.pred("QueuedOK", [("q", SeqV(Ref("Operator")))],
           "nodup(q) and all(WFop(op) and state(op) in ASSIGNABLE_STATES for op in q)")
    S.fn(f"{MO}:make_assignments", owners=["C18", "C08"],
         params={"s": Ref("Scheduler")},
         returns=List(Ref("Assignment")),
         requires=["s is not None and s.op_queue is not None and s.pipeline_failures is not None", "SnapshotOK(s)", "GI1()",
                   "QueuedOK(seq(s.op_queue))"],
         ensures=[("one-op-one-cpu-full-ram", "all(OverbookAsg(s, a) for a in result)"),
                  ("abandoned-never-assigned", "all(old(select(vals(s.pipeline_failures), a.ops[0].pipeline.pipeline_id)) < MAX_FAILURES"
                                               " or a.ops[0].pipeline.pipeline_id not in old(keys(s.pipeline_failures)) for a in result)"),
                  ("work-conserving", "len(s.op_queue) == 0 or all(s.avail_cpus[k] < 1 for k in keys(s.avail_cpus))"),
                  ("queue-only-shrinks", "all(op in old(seq(s.op_queue)) for op in s.op_queue)"),
                  ("from-the-queue", "all(a.ops[0] in old(seq(s.op_queue)) for a in result)"),
                  ("failure-counters-kept", "all(implies(key in old(keys(s.pipeline_failures)), key in s.pipeline_failures"
                                            " and s.pipeline_failures[key] == old(select(vals(s.pipeline_failures), key)))"
                                            " and implies(key in s.pipeline_failures and key not in old(keys(s.pipeline_failures)), s.pipeline_failures[key] == 0)"
                                            " for key in every('str'))"),
                  ("I1", "GI1()")],
         raises={},
         modifies=["star('dv:Operator:OperatorState')", "star('dv:OperatorState:int')", "values(s.avail_cpus)",
                   "contents(s.pipeline_failures)", "s.op_queue"],
         allocates=True,
         locals={"assignments": List(Ref("Assignment"))},
         loops={0: dict(idx="k", header="for (op_idx, op) in enumerate(s.op_queue)",
                        inv=["k <= len(s.op_queue)", "GI1()", "SnapshotOK(s)", "s.op_queue is old(s.op_queue)",
                             "seq(s.op_queue) == old(seq(s.op_queue))",
                             "all(OverbookAsg(s, a) and a.ops[0] in take(s.op_queue, k) for a in assignments)",
                             "all(old(select(vals(s.pipeline_failures), a.ops[0].pipeline.pipeline_id)) < MAX_FAILURES"
                             " or a.ops[0].pipeline.pipeline_id not in old(keys(s.pipeline_failures)) for a in assignments)",
                             "all(state(s.op_queue[j]) == old(state(s.op_queue[j])) for j in range(k, len(s.op_queue)))",
                             "all(implies(key in old(keys(s.pipeline_failures)), key in s.pipeline_failures"
                             " and s.pipeline_failures[key] == old(select(vals(s.pipeline_failures), key)))"
                             " and implies(key in s.pipeline_failures and key not in old(keys(s.pipeline_failures)), s.pipeline_failures[key] == 0)"
                             " for key in every('str'))"])})


def declare3(S: Spec):
    S.pred("PoolsIndexed", [("ex", Ref("Executor"))],
           "ExecShape(ex) and all(ex.pools[i].pool_id == i and ex.pools[i].max_ram_pool > 0 for i in range(0, len(ex.pools)))")
    # every ready, assignable operator of pipeline p sits in the queue (C18: no ready operator is left out of a round)
    S.pred("ReadyQueued", [("s", Ref("Scheduler")), ("p", Ref("Pipeline"))],
           "all(implies(p._runtime_status.operator_states[op] in ASSIGNABLE_STATES and ParentsDone(p._runtime_status, op), op in s.op_queue)"
           " for op in keys(p._runtime_status.operator_states))")
    # each dictionary entry is a pipeline filed under its own id
    ENTRY = ("all(pipelines_to_process[key].pipeline_id == key and (pipelines_to_process[key] in pipelines"
             " or any(r.ops[0].pipeline is pipelines_to_process[key] for r in results)) for key in keys(pipelines_to_process))")
    S.fn(f"{MO}:update_state", owners=["C18", "C08"],
         params={"s": Ref("Scheduler"), "results": List(Ref("ExecutionResult")), "pipelines": List(Ref("Pipeline"))},
         requires=["s is not None and results is not None and pipelines is not None and s.op_queue is not None and s.pipeline_failures is not None",
                   "PoolsIndexed(s.executor)", "GI1()", "QueuedOK(seq(s.op_queue))", "QueueOK(seq(pipelines))",
                   "all(r is not None and r.ops is not None and len(r.ops) == 1 and r.ops[0] is not None and PipeOK(r.ops[0].pipeline)"
                   " and nodup(keys(r.ops[0].pipeline._runtime_status.operator_states)) for r in results)"],
         ensures=[("queue-ok", "QueuedOK(seq(s.op_queue))"),
                  ("queue-grows", "all(op in s.op_queue for op in old(seq(s.op_queue)))"),
                  ("new-entries-ready", "all(op in old(seq(s.op_queue)) or ParentsDone(op.pipeline._runtime_status, op) for op in s.op_queue)"),
                  ("snapshot", "SnapshotOK(s) and all(s.executor.pools[i].pool_id in s.avail_cpus"
                               " and s.avail_cpus[s.executor.pools[i].pool_id] == s.executor.pools[i].avail_cpu_pool for i in range(0, len(s.executor.pools)))"),
                  ("failure-counters-only-grow", "all(implies(key in old(keys(s.pipeline_failures)), key in s.pipeline_failures"
                                                 " and s.pipeline_failures[key] >= old(select(vals(s.pipeline_failures), key))) for key in every('str'))"),
                  ("states-untouched", "all(state(o) == old(state(o)) for o in every('Operator'))"), ("I1", "GI1()")],
         raises={},
         modifies=["contents(s.op_queue)", "contents(s.pipeline_failures)", "s.avail_cpus"],
         allocates=True,
         locals={"pipelines_to_process": Dict(STR, Ref("Pipeline")), "queued_ids": Set(Ref("UUID")), "ready_ops": List(Ref("Operator"))},
         loops={0: dict(idx="k", header="for r in results",
                        inv=["all(PipeOK(pipelines_to_process[key]) and nodup(keys(pipelines_to_process[key]._runtime_status.operator_states))"
                             " for key in keys(pipelines_to_process))", "nodup(keys(pipelines_to_process))", ENTRY,
                             "all(results[j].ops[0].pipeline.pipeline_id in pipelines_to_process for j in range(0, k))",
                             "all(p.pipeline_id in pipelines_to_process for p in pipelines)",
                             "all(implies(key in old(keys(s.pipeline_failures)), key in s.pipeline_failures"
                             " and s.pipeline_failures[key] >= old(select(vals(s.pipeline_failures), key))) for key in every('str'))"]),
                1: dict(idx="k", header="for pipeline in pipelines_to_process.values()",
                        unfold=["keys(pipelines_to_process)"],
                        inv=["k <= len(keys(pipelines_to_process))",
                             "all(ReadyQueued(s, pipelines_to_process[keys(pipelines_to_process)[j]]) for j in range(0, k))",
                             "all(PipeOK(pipelines_to_process[key]) and nodup(keys(pipelines_to_process[key]._runtime_status.operator_states))"
                             " for key in keys(pipelines_to_process))",
                             "QueuedOK(seq(s.op_queue))", "all(op in s.op_queue for op in old(seq(s.op_queue)))",
                             "all(op in old(seq(s.op_queue)) or ParentsDone(op.pipeline._runtime_status, op) for op in s.op_queue)",
                             "all(iff(x in queued_ids, any(op.id is x for op in s.op_queue)) for x in every('UUID'))",
                             "vals(pipelines_to_process) == at_entry(vals(pipelines_to_process)) and keys(pipelines_to_process) == at_entry(keys(pipelines_to_process))"]),
                2: dict(idx="j", header="for op in ready_ops",
                        inv=["all(ReadyQueued(s, pipelines_to_process[keys(pipelines_to_process)[i]]) for i in range(0, k))",
                             "QueuedOK(seq(s.op_queue))", "all(op in s.op_queue for op in old(seq(s.op_queue)))",
                             "all(op in old(seq(s.op_queue)) or ParentsDone(op.pipeline._runtime_status, op) for op in s.op_queue)",
                             "all(iff(x in queued_ids, any(op.id is x for op in s.op_queue)) for x in every('UUID'))",
                             "all(ready_ops[i] in s.op_queue for i in range(0, j))", "j <= len(ready_ops)"])})


def declare4(S: Spec):
    upd = S.fns[f"{MO}:update_state"]
    upd.native_ensures.append(("failure-counter-counts-failed-containers",
                               "C18| all(s.pipeline_failures[key] == old(s.pipeline_failures.get(key, 0))"
                               " + len([r for r in results if r.error is not None and r.ops[0].pipeline.pipeline_id == key])"
                               " for key in keys(s.pipeline_failures))"))
    # monitored natively only (not discharged deductively in this revision): completeness of the ready queue
    upd.native_ensures.append(("ready-work-of-touched-pipelines-queued",
                               "C18| all(ReadyQueued(s, p) or any(p2.pipeline_id == p.pipeline_id and p2 is not p for p2 in pipelines) for p in pipelines)"
                               " and all(ReadyQueued(s, r.ops[0].pipeline) for r in results)"))
    S.fn(f"{MO}:overbook_scheduler", owners=["C18", "C08"],
         params={"s": Ref("Scheduler"), "results": List(Ref("ExecutionResult")), "pipelines": List(Ref("Pipeline"))},
         returns=Tuple(List(Ref("Suspend")), List(Ref("Assignment"))),
         requires=list(upd.requires),
         ensures=[("never-suspends", "result[0] is not None and len(result[0]) == 0"),
                  ("one-op-one-cpu-full-ram", "all(OverbookAsg(s, a) for a in result[1])"),
                  ("abandoned-never-assigned", "all(a.ops[0].pipeline.pipeline_id not in s.pipeline_failures"
                                               " or s.pipeline_failures[a.ops[0].pipeline.pipeline_id] < MAX_FAILURES for a in result[1])"),
                  ("work-conserving", "implies(len(pipelines) > 0 or len(results) > 0,"
                                      " len(s.op_queue) == 0 or all(s.avail_cpus[k] < 1 for k in keys(s.avail_cpus)))"),
                  ("I1", "GI1()")],
         raises={},
         modifies=["star('dv:Operator:OperatorState')", "star('dv:OperatorState:int')", "star('dv:int:real')",
                   "contents(s.op_queue)", "contents(s.pipeline_failures)", "s.avail_cpus", "s.op_queue"],
         allocates=True)

"""Contract for the starter scheduler that `eudoxia init -s <name>` writes (C08).

The scheduler's source is the string SCHEDULER_TEMPLATE in eudoxia/__main__.py; on every run it is read from the current
source, formatted exactly as init_command does (scheduler_name="starter") and loaded as module eudoxia_init_template."""
import ast
from pyvc.ty import *  # noqa
from pyvc.spec import Spec

MT = "eudoxia_init_template"


def prepare(prog):
    tree = prog.modules.get("eudoxia.__main__")
    tmpl = None
    for node in tree.body if tree else []:
        if isinstance(node, ast.Assign) and isinstance(node.targets[0], ast.Name) and node.targets[0].id == "SCHEDULER_TEMPLATE":
            tmpl = ast.literal_eval(node.value)
    if not isinstance(tmpl, str):
        raise KeyError("eudoxia.__main__:SCHEDULER_TEMPLATE is no longer a string literal (contract attachment lost)")
    src = tmpl.format(scheduler_name="starter")
    prog.add_module(MT, src, "<SCHEDULER_TEMPLATE.format(scheduler_name='starter')>")
    if not hasattr(prog, "synthetic"):
        prog.synthetic = set()
    return MT, [f"{len(src.splitlines())} lines of template"]


def declare3(S: Spec):
    MN = "eudoxia.scheduler.naive"
    naive = S.fns[f"{MN}:naive_pipeline"]
    S.pred("StarterAsg", [("s", Ref("Scheduler")), ("a", Ref("Assignment"))],
           "a is not None and 0 <= a.pool_id and a.pool_id < len(s.executor.pools)"
           " and a.cpu == s.executor.pools[a.pool_id].avail_cpu_pool and a.ram == s.executor.pools[a.pool_id].avail_ram_pool"
           " and a.cpu > 0 and a.ram > 0 and a.ops is not None and len(a.ops) == 1"
           " and all(old(state(op)) == OperatorState.PENDING and state(op) == OperatorState.ASSIGNED for op in a.ops)"
           " and all(old(op.pipeline._runtime_status.state_counts[OperatorState.FAILED]) == 0 for op in a.ops)"
           " and all(old(ParentsDone(op.pipeline._runtime_status, op)) for op in a.ops)")
    rep = lambda t: t.replace("NaiveAsg(", "StarterAsg(")
    loops = {k: dict(idx=v.idx, header=v.header, inv=[rep(i) for i in v.inv]) for k, v in naive.loops.items()}
    S.fn(f"{MT}:starter_scheduler", owners=["C08"], params=dict(naive.params), returns=naive.returns,
         requires=list(naive.requires),
         ensures=[(l, rep(e)) for l, e in zip(naive.ensures_labels, naive.ensures)],
         raises={}, modifies=list(naive.modifies), allocates=True, locals=dict(naive.locals), loops=loops,
         note="same contract as the naive scheduler, with one operator per container whose parents are completed in both container modes")


def declare(S: Spec):
    pass

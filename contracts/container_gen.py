"""Contracts for the tick generator of Container (C01, C02, C04, C05, C09, C10) and Segment timing."""
from pyvc.ty import *  # noqa
from pyvc.spec import Spec

MC = "eudoxia.executor.container"
MP = "eudoxia.workload.pipeline"


def declare(S: Spec):
    # ---- the time model, written from the property statement -------------------------------------------
    # cpu_time(cpus) for the seven documented scaling laws
    S.pred("CpuTime", [("seg", Ref("Segment")), ("n", REAL)],
           "ite(seg.scaling_func is ScalingFuncs._const, seg.baseline_cpu_seconds,"
           " ite(seg.scaling_func is ScalingFuncs._linear_bnded_three, ite(n < 3, rdiv(seg.baseline_cpu_seconds, n), seg.baseline_cpu_seconds / 3),"
           " ite(seg.scaling_func is ScalingFuncs._linear_bnded_seven, ite(n < 7, rdiv(seg.baseline_cpu_seconds, n), seg.baseline_cpu_seconds / 7),"
           " ite(seg.scaling_func is ScalingFuncs._log_scale, rdiv(seg.baseline_cpu_seconds, np_log(n) + 1),"
           " ite(seg.scaling_func is ScalingFuncs._sqrt, rdiv(seg.baseline_cpu_seconds, np_sqrt(n)),"
           " ite(seg.scaling_func is ScalingFuncs._squared, rdiv(seg.baseline_cpu_seconds, rmul(n, n)),"
           " ite(seg.scaling_func is ScalingFuncs._exponential_bnd, ite(n < 4, rdiv(seg.baseline_cpu_seconds, pow2(n)), seg.baseline_cpu_seconds / 16),"
           " unknown_callable(seg.scaling_func, n, seg.baseline_cpu_seconds))))))))")
    S.pred("KnownLaw", [("seg", Ref("Segment"))],
           "seg.scaling_func is ScalingFuncs._const or seg.scaling_func is ScalingFuncs._linear_bnded_three"
           " or seg.scaling_func is ScalingFuncs._linear_bnded_seven or seg.scaling_func is ScalingFuncs._log_scale"
           " or seg.scaling_func is ScalingFuncs._sqrt or seg.scaling_func is ScalingFuncs._squared"
           " or seg.scaling_func is ScalingFuncs._exponential_bnd")
    S.pred("SegOK", [("seg", Ref("Segment"))],
           "seg is not None and seg.storage_read_gb >= 0 and seg.baseline_cpu_seconds >= 0 and KnownLaw(seg)")
    S.pred("IoTicks", [("c", Ref("Container")), ("seg", Ref("Segment"))],
           "floor(rmul(seg.storage_read_gb / 20, c.ticks_per_second))")
    S.pred("CpuTicks", [("c", Ref("Container")), ("seg", Ref("Segment"))],
           "floor(rmul(CpuTime(seg, c.assignment.cpu), c.ticks_per_second))")
    S.pred("SegTicks", [("c", Ref("Container")), ("seg", Ref("Segment"))], "IoTicks(c, seg) + CpuTicks(c, seg)")
    # memory in tick i of a segment: fixed if given; else growing 20 GB per simulated second during I/O,
    # holding the amount read through the CPU phase
    S.pred("MemAt", [("c", Ref("Container")), ("seg", Ref("Segment")), ("i", INT)],
           "ite(seg.memory_gb is not None, val(seg.memory_gb),"
           " ite(i < IoTicks(c, seg), rmul(i + 1, c.tick_length_secs) * 20, seg.storage_read_gb))")

    S.fn(f"{MP}:Segment.get_cpu_time", owners=["C05"],
         params={"num_cpus": REAL}, returns=REAL,
         requires=["SegOK(self)", "num_cpus >= 1"],
         ensures=[("law", "result == CpuTime(self, num_cpus)"), ("nonneg", "result >= 0")],
         modifies=[])

    S.fn(f"{MC}:Container._segment_ticks", owners=["C05"],
         params={"seg": Ref("Segment")}, returns=Tuple(INT, INT),
         requires=["self.assignment is not None", "self.assignment.cpu >= 1", "SegOK(seg)",
                   "self.ticks_per_second >= 1", "self.tick_length_secs == rdiv(1.0, self.ticks_per_second)"],
         ensures=[("io", "result[0] == IoTicks(self, seg)"), ("cpu", "result[1] == CpuTicks(self, seg)"),
                  ("nonneg", "result[0] >= 0 and result[1] >= 0")],
         modifies=[])


def declare2(S: Spec):
    S.pred("ops_of", [("c", Ref("Container"))], "c.assignment.ops")
    S.pred("OpSegsOK", [("op", Ref("Operator"))], "op.values is not None and all(SegOK(s) for s in op.values)")
    # static well-formedness a container needs to run (established by Container.__init__ from an accepted assignment)
    S.pred("Runnable", [("c", Ref("Container"))],
           "CWF(c) and len(c.assignment.ops) >= 1 and c.assignment.cpu >= 1 and c.assignment.ram > 0"
           " and all(OpSegsOK(op) for op in c.assignment.ops)")
    # the visible part of the live-container invariant (I4): completed prefix, current operator, assigned rest
    S.pred("Prefix", [("c", Ref("Container")), ("k", INT)],
           "all(state(c.assignment.ops[j]) == OperatorState.COMPLETED for j in range(0, k))")
    S.pred("Suffix", [("c", Ref("Container")), ("k", INT)],
           "all(state(c.assignment.ops[j]) == OperatorState.ASSIGNED for j in range(k, len(c.assignment.ops)))")
    S.pred("OthersSince", [("c", Ref("Container"))],
           "all(state(o) == resume(state(o)) for o in every('Operator') if o not in c.assignment.ops)")
    S.pred("UsageSince", [("c", Ref("Container"))],
           "c.pool.consumed_ram_gb - c._current_memory == resume(c.pool.consumed_ram_gb - c._current_memory)")
    # operator `k` is the current one: RUNNING, or COMPLETED when `done`
    S.pred("AtOp", [("c", Ref("Container")), ("k", INT), ("done", BOOL)],
           "Runnable(c) and 0 <= k and k < len(c.assignment.ops) and Prefix(c, k) and Suffix(c, k + 1)"
           " and state(c.assignment.ops[k]) == ite(done, OperatorState.COMPLETED, OperatorState.RUNNING)"
           " and c._current_op_idx == k + ite(done, 1, 0)"
           " and c._completed == (done and k == len(c.assignment.ops) - 1)"
           " and implies(c._completed, c.error is None and c._current_memory == 0)")

    COMMON = ["GI1()", "OthersSince(self)", "UsageSince(self)", "resume(self._current_op_idx) == self._current_op_idx"]
    DONE2 = "(last_busy_seg_idx is not None and k2 > val(last_busy_seg_idx))"
    DONE3 = ("(last_busy_seg_idx is not None and (seg_idx > val(last_busy_seg_idx) or "
             "(seg_idx == val(last_busy_seg_idx) and i3 == total_seg_ticks)))")
    LASTBUSY = ["implies(last_busy_seg_idx is None, all(SegTicks(self, segments[j]) == 0 for j in range(0, {k})))",
                "implies(last_busy_seg_idx is not None, 0 <= val(last_busy_seg_idx) and val(last_busy_seg_idx) < {k}"
                " and SegTicks(self, segments[val(last_busy_seg_idx)]) > 0"
                " and all(SegTicks(self, segments[j]) == 0 for j in range(val(last_busy_seg_idx) + 1, {k})))"]
    STEP = [("I1", "C02| GI1()"), ("usage-delta", "C04,C05| self.pool.consumed_ram_gb - self._current_memory == old(self.pool.consumed_ram_gb - self._current_memory)"),
            ("others-kept", "C02,C05| all(state(o) == old(state(o)) for o in every('Operator') if o not in self.assignment.ops)"),
            ("one-op-per-tick", "C05| old(self._current_op_idx) <= self._current_op_idx and self._current_op_idx <= old(self._current_op_idx) + 1"),
            ("live-shape", "C01,C02,C05| Runnable(self) and Prefix(self, self._current_op_idx) and Suffix(self, self._current_op_idx + 1)"
                           " and implies(self._current_op_idx < len(self.assignment.ops),"
                           "             state(self.assignment.ops[self._current_op_idx]) in (OperatorState.ASSIGNED, OperatorState.RUNNING))"),
            ("success-iff-all-done", "C05,C09| self._completed == (self._current_op_idx == len(self.assignment.ops))"),
            ("success-clean", "C04,C09| implies(self._completed, self.error is None and self._current_memory == 0)"),
            ("suspendable-only-at-boundary",
             "C10| implies(self._can_suspend and self._current_memory <= self.assignment.ram,"
             " self._current_op_idx >= 1 and self._current_op_idx < len(self.assignment.ops)"
             " and state(self.assignment.ops[self._current_op_idx]) == OperatorState.ASSIGNED)"),
            ("frozen-or-within-limit", "self._current_memory > self.assignment.ram or self._current_memory <= self.assignment.ram")]

    S.fn(f"{MC}:Container._tick_generator", owners=["C05"],
         requires=["Runnable(self)", "GI1()", "self._current_op_idx == 0", "not self._completed", "Suffix(self, 0)",
                   "self._current_memory == 0", "not self._can_suspend", "self.error is None"],
         raises={"AssertionError": ["GI1()", "C01,C05| state(op) == OperatorState.ASSIGNED",
                                    "C01,C05| not Admissible(status(op), op, OperatorState.RUNNING)"]},
         modifies=["(values(o.pipeline._runtime_status.operator_states) for o in self.assignment.ops)",
                   "(values(o.pipeline._runtime_status.state_counts) for o in self.assignment.ops)",
                   "self._current_memory", "self.pool.consumed_ram_gb", "self._completed", "self.error",
                   "self._can_suspend", "self._current_op_idx"],
         locals={"last_busy_seg_idx": Opt(INT)},
         loops={
             0: dict(idx="k0", header="for (op_idx, op) in enumerate(self.operators)",
                     inv=["Runnable(self)", "k0 < len(self.assignment.ops)", "self._current_op_idx == k0", "not self._completed",
                          "Prefix(self, k0)", "Suffix(self, k0)", "self._current_memory <= self.assignment.ram"] + COMMON),
             1: dict(idx="k1", header="for (seg_idx, seg) in enumerate(segments)",
                     inv=[x.format(k="k1") for x in LASTBUSY] + ["k1 <= len(segments)"]),
             2: dict(idx="k2", header="for (seg_idx, seg) in enumerate(segments)",
                     inv=[f"AtOp(self, op_idx, {DONE2})", "not self._completed", "k2 <= len(segments)",
                          "self._current_memory <= self.assignment.ram"] + COMMON),
             3: dict(idx="i3", header="for i in range(total_seg_ticks)",
                     inv=[f"AtOp(self, op_idx, {DONE3})", "not self._completed", "i3 <= total_seg_ticks",
                          "self._current_memory <= self.assignment.ram"] + COMMON),
             4: dict(header="while self._current_memory > self.assignment.ram",
                     inv=["AtOp(self, op_idx, False)", "self._current_memory == MemAt(self, seg, i)"] + COMMON),
         },
         covers={"multi-op": "len(self.assignment.ops) >= 2"})
    c = S.fns[f"{MC}:Container._tick_generator"]
    c.gen = dict(
        yield_inv={
            0: ["AtOp(self, op_idx, False)", "self._current_memory > self.assignment.ram",
                "self._current_memory == MemAt(self, seg, i)"],
            1: [f"AtOp(self, op_idx, seg_idx == last_busy_seg_idx and i == total_seg_ticks - 1)",
                "self._current_memory <= self.assignment.ram or self._completed",
                "implies(not self._completed, self._current_memory == MemAt(self, seg, i))",
                "self._can_suspend == (seg_idx == last_busy_seg_idx and i == total_seg_ticks - 1 and op_idx < len(self.assignment.ops) - 1)",
                "0 <= i and i < total_seg_ticks"],
            2: ["AtOp(self, op_idx, True)", "self._can_suspend == (op_idx < len(self.assignment.ops) - 1)",
                "self._current_memory <= self.assignment.ram"],
        },
        step_post=STEP,
        rely_havoc=["star('dv:Operator:OperatorState')", "star('dv:OperatorState:int')", "star('fld:ResourcePool.consumed_ram_gb')"],
        rely_assume=["all(state(o) == old(state(o)) for o in self.assignment.ops)", "GI1()"],
        resume_requires=["not self._completed"],
        exhaust=[("never-without-completing", "False")],
    )


def declare3(S: Spec):
    """Container.tick / next(generator) / Container.__init__ - the interface the pool sees."""
    g = S.fns[f"{MC}:Container._tick_generator"]
    own = lambda e: e.replace("self.", "self.owner.").replace("(self)", "(self.owner)").replace("(self,", "(self.owner,")
    S.cls("TickGen", {"owner": Ref("Container")}, immutable=("owner",))
    # visible live-container shape (I4 for one container)
    S.pred("LiveShape", [("c", Ref("Container"))],
           "Runnable(c) and Prefix(c, c._current_op_idx) and Suffix(c, c._current_op_idx + 1)"
           " and c._completed == (c._current_op_idx == len(c.assignment.ops))"
           " and implies(c._current_op_idx < len(c.assignment.ops),"
           "             state(c.assignment.ops[c._current_op_idx]) in (OperatorState.ASSIGNED, OperatorState.RUNNING))")
    from pyvc.spec import split_tags

    def retag(e, f):
        tags, body = split_tags(e)
        return (",".join(tags) + "| " if tags else "") + f(body)
    step = g.gen["step_post"]
    S.fn("next_of:TickGen",
         params={}, returns=None,
         requires=["self is not None and self.owner is not None", "LiveShape(self.owner)", "GI1()", "not self.owner._completed"],
         ensures=[(lbl, retag(e, own)) for lbl, e in step],
         raises={"AssertionError": [own("all(state(o) == old(state(o)) for o in every('Operator') if o not in self.assignment.ops)"), "GI1()"]},
         modifies=[own(m) for m in g.modifies],
         note="derived contract: justified by the yield-step / exhaust obligations of Container._tick_generator "
              "(every resumption runs to the next yield and establishes the step postcondition; the generator never "
              "finishes without completing the container) under the rely condition stated there")
    S.fns["next_of:TickGen"].trusted = True

    S.fn(f"{MC}:Container.tick", owners=["C05"],
         requires=["self._tick_iter is not None and self._tick_iter.owner is self", "LiveShape(self)", "GI1()"],
         ensures=[("idle-when-done", "implies(old(self._completed), self._ticks_elapsed == old(self._ticks_elapsed) and self._current_memory == old(self._current_memory)"
                                     " and self.pool.consumed_ram_gb == old(self.pool.consumed_ram_gb) and self._current_op_idx == old(self._current_op_idx)"
                                     " and all(state(o) == old(state(o)) for o in every('Operator')))"),
                  ("one-tick", "implies(not old(self._completed), self._ticks_elapsed == old(self._ticks_elapsed) + 1)")]
                 + [(lbl, retag(e, lambda b: f"implies(not old(self._completed), {b})")) for lbl, e in step]
                 + [("shape-kept", "LiveShape(self)"), ("I1-kept", "GI1()")],
         raises={"AssertionError": ["all(state(o) == old(state(o)) for o in every('Operator') if o not in self.assignment.ops)", "GI1()"]},
         modifies=g.modifies + ["self._ticks_elapsed"])

    S.fn(f"{MC}:Container.__init__", owners=["C09", "C05"],
         params={"assignment": Ref("Assignment"), "pool": Ref("ResourcePool"), "ticks_per_second": INT},
         requires=["GI1()", "assignment is not None and pool is not None and ticks_per_second >= 1",
                   "assignment.ops is not None and nodup(assignment.ops) and len(assignment.ops) >= 1",
                   "all(WFop(op) and OpSegsOK(op) and state(op) == OperatorState.ASSIGNED for op in assignment.ops)",
                   "assignment.cpu >= 1 and assignment.ram > 0"],
         ensures=[("fields", "self.assignment is assignment and self.pool is pool and self.ticks_per_second == ticks_per_second"),
                  ("fresh-start", "self._current_op_idx == 0 and not self._completed and self._current_memory == 0 and not self._can_suspend"
                                  " and self.error is None and self._ticks_elapsed == 0 and self._suspend_ticks_left is None"),
                  ("generator", "self._tick_iter is not None and self._tick_iter.owner is self"),
                  ("shape", "LiveShape(self)"),
                  ("id", "self.container_id == fmt('c{}', old(Container.next_container_num))"
                         " and Container.next_container_num == old(Container.next_container_num) + 1")],
         modifies=["glob('Container.next_container_num')"],
         allocates=True)

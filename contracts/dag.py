"""Contracts for eudoxia/utils/dag.py (C01 clause c, C14/C15 structure)."""
from pyvc.ty import *  # noqa
from pyvc.spec import Spec

MD = "eudoxia.utils.dag"


def declare(S: Spec):
    # structural well-formedness of the node graph the iterator walks over
    S.pred("NodeWF", [("n", Ref("Node"))],
           "n is not None and n.children is not None and n.parents is not None and nodup(n.children) and nodup(n.parents)"
           " and all(c is not None and n in c.parents for c in n.children)"
           " and all(p is not None and n in p.children for p in n.parents)")
    S.pred("GNodeWF", [], "all(NodeWF(n) for n in every('Node') if n is not None)")
    # iterator invariant K
    S.pred("IterInv", [("it", Ref("DAGIterator"))],
           "it.queue is not None and it.returned is not None and nodup(it.queue)"
           " and all(n is not None and NodeWF(n) and n.id not in it.returned for n in it.queue)"
           " and all(all(p.id in it.returned for p in n.parents) for n in it.queue)")

    S.fn(f"{MD}:DAGIterator.__next__", owners=["C01"],
         returns=Ref("Node"),
         requires=["IterInv(self)", "GNodeWF()"],
         ensures=[("visited-once", "result is not None and result.id not in old(vals_set(self.returned)) and result.id in self.returned"),
                  ("parents-first", "all(p.id in old(vals_set(self.returned)) for p in result.parents)"),
                  ("returned-grows-by-one", "all(iff(x in self.returned, old(x in vals_set(self.returned)) or x is result.id) for x in every('UUID'))"),
                  ("was-queued", "result in old(seq(self.queue))"),
                  ("invariant-kept", "IterInv(self)")],
         raises={"StopIteration": ["len(self.queue) == 0", "IterInv(self)"]},
         modifies=["contents(self.queue)", "contents(self.returned)"],
         loops={0: dict(idx="k", header="for child in curr.children",
                        inv=["k <= len(curr.children)", "NodeWF(curr)", "curr.id in self.returned",
                             "nodup(self.queue)",
                             "all(n is not None and NodeWF(n) and n.id not in self.returned for n in self.queue)",
                             "all(all(p.id in self.returned for p in n.parents) for n in self.queue)",
                             "all(iff(x in self.returned, old(x in vals_set(self.returned)) or x is curr.id) for x in every('UUID'))",
                             "all(n in old(seq(self.queue)) or n in take(curr.children, k) for n in self.queue)"])})

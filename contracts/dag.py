"""Contracts for eudoxia/utils/dag.py (C01 clause c, C14/C15 structure)."""
from pyvc.ty import *  # noqa
from pyvc.spec import Spec

MD = "eudoxia.utils.dag"


def declare(S: Spec):
    # structural well-formedness of the node graph the iterator walks over
    S.pred("NodeWF", [("n", Ref("Node"))],
           "n is not None and n.children is not None and n.parents is not None and nodup(n.children) and nodup(n.parents)"
           " and all(c is not None and n in c.parents for c in n.children)"
           " and all(p is not None and n in p.children for p in n.parents)")
    S.pred("GNodeWF", [], "all(NodeWF(n) for n in every('Node') if n is not None)")
    # iterator invariant K
    S.pred("IterInv", [("it", Ref("DAGIterator"))],
           "it.queue is not None and it.returned is not None and nodup(it.queue)"
           " and all(n is not None and NodeWF(n) and n.id not in it.returned for n in it.queue)"
           " and all(all(p.id in it.returned for p in n.parents) for n in it.queue)")

    S.fn(f"{MD}:DAGIterator.__next__", owners=["C01"],
         returns=Ref("Node"),
         requires=["IterInv(self)", "GNodeWF()"],
         ensures=[("visited-once", "result is not None and result.id not in old(vals_set(self.returned)) and result.id in self.returned"),
                  ("parents-first", "all(p.id in old(vals_set(self.returned)) for p in result.parents)"),
                  ("returned-grows-by-one", "all(iff(x in self.returned, old(x in vals_set(self.returned)) or x is result.id) for x in every('UUID'))"),
                  ("was-queued", "result in old(seq(self.queue))"),
                  ("invariant-kept", "IterInv(self)")],
         raises={"StopIteration": ["len(self.queue) == 0", "IterInv(self)"]},
         modifies=["contents(self.queue)", "contents(self.returned)"],
         loops={0: dict(idx="k", header="for child in curr.children",
                        inv=["k <= len(curr.children)", "NodeWF(curr)", "curr.id in self.returned",
                             "nodup(self.queue)",
                             "all(n is not None and NodeWF(n) and n.id not in self.returned for n in self.queue)",
                             "all(all(p.id in self.returned for p in n.parents) for n in self.queue)",
                             "all(iff(x in self.returned, old(x in vals_set(self.returned)) or x is curr.id) for x in every('UUID'))",
                             "all(n in old(seq(self.queue)) or n in take(curr.children, k) for n in self.queue)"])})


def declare2(S: Spec):
    """DAG construction (C15, C14): add_node and, through it, Pipeline.new_operator"""
    MP = "eudoxia.workload.pipeline"
    HAS = "(parents is not None and len(parents) > 0)"
    S.fn(f"{MD}:DAG.add_node", owners=["C15"],
         params={"node": Ref("Node"), "parents": List(Ref("Node"))},
         requires=["node is not None and node.children is not None and node.parents is not None and node.id is not None",
                   "self.node_ids is not None and self.node_lookup is not None and self.roots is not None",
                   "implies(parents is not None, nodup(parents) and all(p is not None and p is not node and p.children is not None and p.id is not None for p in parents))",
                   "implies(parents is not None, parents is not self.roots and parents is not node.parents and all(parents is not p.children for p in parents))"],
         ensures=[("id-registered-last", "seq(self.node_ids) == app(old(seq(self.node_ids)), node.id)"),
                  ("lookup-gains-the-node", "self.node_lookup[node.id] is node and all(k in self.node_lookup and implies(k is not node.id, self.node_lookup[k] is old(self.node_lookup[k]))"
                                            " for k in old(keys(self.node_lookup)))"),
                  ("a-node-without-parents-is-a-root", f"implies(not {HAS}, seq(self.roots) == app(old(seq(self.roots)), node) and seq(node.parents) == old(seq(node.parents)))"),
                  ("edges-to-the-parents", f"implies({HAS}, seq(self.roots) == old(seq(self.roots)) and seq(node.parents) == cat(old(seq(node.parents)), seq(parents))"
                                           " and all(seq(p.children) == app(old(seq(p.children)), node) for p in parents))"),
                  ("was-new", "old(node.id not in self.node_ids)")],
         raises={"AssertionError": ["old(node.id in self.node_ids) or (parents is not None and any(p.id not in old(seq(self.node_ids)) for p in parents))"]},
         modifies=["contents(self.node_ids)", "contents(self.node_lookup)", "contents(self.roots)", "contents(node.parents)",
                   "(contents(p.children) for p in every('Node') if parents is not None and p in parents)"],
         loops={0: dict(idx="k", inv=["k <= len(parents)", "seq(node.parents) == cat(at_entry(seq(node.parents)), take(seq(parents), k))",
                                      "all(seq(parents[j].children) == app(at_entry(seq(parents[j].children)), node) for j in range(0, k))",
                                      "all(seq(parents[j].children) == at_entry(seq(parents[j].children)) for j in range(k, len(parents)))",
                                      "seq(self.node_ids) == at_entry(seq(self.node_ids)) and seq(self.roots) == at_entry(seq(self.roots))",
                                      "keys(self.node_lookup) == at_entry(keys(self.node_lookup))",
                                      "all(self.node_lookup[kk] is at_entry(self.node_lookup[kk]) for kk in self.node_lookup)"],
                        unfold=["seq(parents)"])},
         note="an exception (duplicate id, unknown parent) may leave edges already added behind; it is raised only for a duplicate id or an unknown parent")
    S.fn(f"{MP}:Pipeline.new_operator", owners=["C15"], params={"parents": List(Ref("Operator"))}, returns=Ref("Operator"),
         requires=["self.values is not None and self.values.node_ids is not None and self.values.node_lookup is not None and self.values.roots is not None",
                   "implies(parents is not None, nodup(parents) and all(p is not None and p.children is not None and p.id is not None for p in parents))",
                   "implies(parents is not None, parents is not self.values.roots and all(parents is not p.children for p in parents))"],
         ensures=[("a-fresh-operator-of-this-pipeline", "result is not None and fresh(result) and result.pipeline is self and result.values is not None"
                                                        " and fresh(result.values) and len(result.values) == 0 and fresh(result.children) and fresh(result.parents) and fresh(result.id)"),
                  ("registered-last", "seq(self.values.node_ids) == app(old(seq(self.values.node_ids)), result.id)"),
                  ("looked-up-by-its-id", "self.values.node_lookup[result.id] is result and all(k in self.values.node_lookup and"
                                          " self.values.node_lookup[k] is old(self.values.node_lookup[k]) for k in old(keys(self.values.node_lookup)))"),
                  ("its-parents-are-the-given-ones", f"implies({HAS}, seq(result.parents) == seq(parents)) and implies(not {HAS}, len(result.parents) == 0)")],
         raises={"AssertionError": ["parents is not None and any(p.id not in old(seq(self.values.node_ids)) for p in parents)"]},
         modifies=["contents(self.values.node_ids)", "contents(self.values.node_lookup)", "contents(self.values.roots)",
                   "(contents(p.children) for p in every('Node') if parents is not None and p in parents)"],
         allocates=True)


def declare3(S: Spec):
    """C01 clause c, construction side: the only writer of the node graph keeps it well formed, so the iterator's
    precondition GNodeWF() is an invariant of every DAG built through add_node (writers are scan-checked)."""
    # a node that is in no edge yet; under GNodeWF() empty parent/child lists imply that no other node lists it either
    S.pred("Unlinked", [("n", Ref("Node"))],
           "n is not None and n.children is not None and n.parents is not None and len(n.children) == 0 and len(n.parents) == 0")
    S.fn(f"{MD}:DAG.add_node#wf", owners=["C01"],
         params={"node": Ref("Node"), "parents": List(Ref("Node"))},
         requires=["node is not None and node.id is not None and Unlinked(node)", "GNodeWF()",
                   "self.node_ids is not None and self.node_lookup is not None and self.roots is not None",
                   "implies(parents is not None, nodup(parents) and all(p is not None and p is not node and p.children is not None and p.parents is not None and p.id is not None for p in parents))",
                   "implies(parents is not None, parents is not self.roots and parents is not node.parents and all(parents is not p.children for p in parents))"],
         ensures=[("the-node-graph-stays-well-formed", "GNodeWF()")],
         raises={"AssertionError": []},
         modifies=["contents(self.node_ids)", "contents(self.node_lookup)", "contents(self.roots)", "contents(node.parents)",
                   "(contents(p.children) for p in every('Node') if parents is not None and p in parents)"],
         loops={0: dict(idx="k", inv=["k <= len(parents)", "seq(node.parents) == take(seq(parents), k)",
                                      "all(seq(parents[j].children) == app(at_entry(seq(parents[j].children)), node) for j in range(0, k))",
                                      "all(seq(parents[j].children) == at_entry(seq(parents[j].children)) for j in range(k, len(parents)))",
                                      "all(implies(n is not None and n is not node and not (n in take(seq(parents), k)), seq(n.children) == at_entry(seq(n.children))) for n in every('Node'))",
                                      "all(implies(n is not None and n is not node, seq(n.parents) == at_entry(seq(n.parents))) for n in every('Node'))"],
                        unfold=["seq(parents)"])},
         note="variant of add_node's contract carrying the graph invariant")


"""Class schemas (field -> static type) for the eudoxia classes touched by contracts.

`immutable` fields are assigned exactly once, in the constructor of the fresh object; this is
checked mechanically on every run (pyvc.scan.check_immutables) - a second writer is a checker
error, not a silent assumption."""
from pyvc.ty import *  # noqa
from pyvc.spec import Spec


def declare(S: Spec):
    OpState = Enum("OperatorState")
    Prio = Enum("Priority")
    S.cls("Node", {"id": Ref("UUID"), "children": List(Ref("Node")), "parents": List(Ref("Node"))},
          immutable=("id", "children", "parents"), owned=("id", "children", "parents"))
    S.cls("UUID", {})
    S.cls("DAG", {"dag_id": Ref("UUID"), "node_ids": List(Ref("UUID")), "node_lookup": Dict(Ref("UUID"), Ref("Node")),
                  "roots": List(Ref("Node")), "iter": Ref("DAGIterator")},
          immutable=("dag_id", "node_ids", "node_lookup", "roots"), owned=("node_ids", "node_lookup", "roots"))
    S.cls("DAGIterator", {"dag": Ref("DAG"), "returned": Set(Ref("UUID")), "queue": List(Ref("Node"))},
          immutable=("dag", "returned", "queue"), owned=("returned", "queue"))
    S.cls("Segment", {"baseline_cpu_seconds": REAL, "memory_gb": Opt(REAL), "storage_read_gb": REAL, "scaling_func": Fn("scaling")},
          immutable=("baseline_cpu_seconds", "memory_gb", "storage_read_gb", "scaling_func"))
    S.cls("Operator", {"values": List(Ref("Segment")), "pipeline": Ref("Pipeline")}, immutable=("values", "pipeline"))
    S.cls("Pipeline", {"pipeline_id": STR, "priority": Prio, "values": Ref("DAG"), "_runtime_status": Ref("PipelineRuntimeStatus")},
          immutable=("pipeline_id", "priority", "values"))
    S.cls("PipelineRuntimeStatus", {"pipeline": Ref("Pipeline"), "operator_states": Dict(Ref("Operator"), OpState),
                                    "state_counts": Dict(OpState, INT), "arrival_tick": Opt(INT), "finish_tick": Opt(INT)},
          immutable=("pipeline", "operator_states", "state_counts"), owned=("operator_states", "state_counts"))
    S.cls("Suspend", {"container_id": STR, "pool_id": INT}, immutable=("container_id", "pool_id"))
    S.cls("ExecutionResult", {"ops": List(Ref("Operator")), "cpu": REAL, "ram": REAL, "priority": Prio, "pool_id": INT,
                              "container_id": STR, "error": Opt(STR)},
          immutable=("ops", "cpu", "ram", "priority", "pool_id", "container_id", "error"))
    S.cls("Assignment", {"ops": List(Ref("Operator")), "cpu": REAL, "ram": REAL, "priority": Prio, "pool_id": INT,
                         "pipeline_id": STR, "container_id": Opt(STR), "is_resume": BOOL, "force_run": BOOL},
          immutable=("ops", "cpu", "ram", "priority", "pool_id", "pipeline_id", "container_id", "is_resume", "force_run"))
    S.cls("Container", {"container_id": STR, "assignment": Ref("Assignment"), "pool": Ref("ResourcePool"),
                        "suspend_ticks": Opt(INT), "_suspend_ticks_left": Opt(INT), "error": Opt(STR),
                        "ticks_per_second": INT, "tick_length_secs": REAL, "_current_memory": REAL, "_can_suspend": BOOL,
                        "_completed": BOOL, "_ticks_elapsed": INT, "_current_op_idx": INT, "_tick_iter": Ref("TickGen"),
                        "next_container_num": INT},
          immutable=("container_id", "assignment", "pool", "ticks_per_second", "tick_length_secs", "_tick_iter"))
    S.cls("ResourcePool", {"pool_id": INT, "ticks_per_second": INT, "tick_length_secs": REAL, "multi_operator_containers": BOOL,
                           "allow_memory_overcommit": BOOL, "max_cpu_pool": REAL, "max_ram_pool": REAL,
                           "avail_cpu_pool": REAL, "avail_ram_pool": REAL, "consumed_ram_gb": REAL,
                           "active_containers": List(Ref("Container")), "suspending_containers": List(Ref("Container")),
                           "suspended_containers": List(Ref("Container")), "num_completed": INT,
                           "container_tick_times": List(INT), "cost": INT, "i": INT},
          immutable=("pool_id", "ticks_per_second", "tick_length_secs", "multi_operator_containers", "allow_memory_overcommit",
                     "max_cpu_pool", "max_ram_pool", "active_containers", "suspending_containers", "suspended_containers",
                     "container_tick_times"),
          owned=("active_containers", "suspending_containers", "suspended_containers", "container_tick_times"))
    S.cls("Executor", {"num_pools": INT, "cpus_per_pool": REAL, "ram_gb_per_pool": REAL, "ticks_per_second": INT,
                       "tick_length_secs": REAL, "pools": List(Ref("ResourcePool"))},
          immutable=("num_pools", "cpus_per_pool", "ram_gb_per_pool", "ticks_per_second", "tick_length_secs", "pools"))

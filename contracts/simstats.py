"""Contracts for the statistics side of the simulator (C06): arrival/finish recording, latency, the success test,
compute_pipeline_stats and the per-tick bookkeeping blocks of run_simulator (extracted mechanically)."""
import ast
from pyvc.ty import *  # noqa
from pyvc.spec import Spec

M = "eudoxia.workload.runtime_status"
MS = "eudoxia.simulator"
OpState = Enum("OperatorState")
Prio = Enum("Priority")


def declare(S: Spec):
    S.cls("PipelineStats", {"arrival_count": INT, "completion_count": INT, "mean_latency_seconds": REAL, "p99_latency_seconds": REAL},
          immutable=("arrival_count", "completion_count", "mean_latency_seconds", "p99_latency_seconds"))
    S.fn(f"{M}:PipelineRuntimeStatus.record_arrival", owners=["C06"], params={"tick": INT},
         requires=[],
         ensures=[("first-time-only", "old(self.arrival_tick) is None"), ("recorded", "self.arrival_tick == tick")],
         raises={"AssertionError": ["old(self.arrival_tick) is not None", "self.arrival_tick == old(self.arrival_tick)"]},
         modifies=["self.arrival_tick"])
    S.fn(f"{M}:PipelineRuntimeStatus.record_finish", owners=["C06"], params={"tick": INT},
         requires=[],
         ensures=[("first-time-only", "old(self.finish_tick) is None"), ("recorded", "self.finish_tick == tick")],
         raises={"AssertionError": ["old(self.finish_tick) is not None", "self.finish_tick == old(self.finish_tick)"]},
         modifies=["self.finish_tick"])
    S.fn(f"{M}:PipelineRuntimeStatus.get_latency_ticks", owners=["C06"], params={}, returns=INT,
         requires=[],
         ensures=[("both-recorded", "self.arrival_tick is not None and self.finish_tick is not None"),
                  ("finish-minus-arrival", "result == val(self.finish_tick) - val(self.arrival_tick)")],
         raises={"AssertionError": ["self.arrival_tick is None or self.finish_tick is None"]},
         modifies=[])
    S.fn(f"{M}:PipelineRuntimeStatus.is_pipeline_successful", owners=["C06"], params={}, returns=BOOL,
         requires=["I1(self)"],
         ensures=[("iff-every-operator-completed",
                   "result == all(self.operator_states[o] == OperatorState.COMPLETED for o in self.operator_states)")],
         modifies=[])
    S.fn(f"{MS}:compute_pipeline_stats", owners=["C06"],
         params={"arrival_count": INT, "latencies": List(INT), "ticks_per_second": INT}, returns=Ref("PipelineStats"),
         requires=["ticks_per_second >= 1", "latencies is not None"],
         ensures=[("arrivals-passed-on", "result.arrival_count == arrival_count"),
                  ("completions-are-the-latencies", "result.completion_count == len(latencies)"),
                  ("nothing-completed-nan", "implies(len(latencies) == 0, is_nan(result.mean_latency_seconds) and is_nan(result.p99_latency_seconds))"),
                  ("mean-over-the-completed", "implies(len(latencies) > 0, result.mean_latency_seconds == rdiv(np_mean(seq(latencies)), ticks_per_second))"),
                  ("p99-over-the-completed", "implies(len(latencies) > 0, result.p99_latency_seconds == rdiv(np_percentile(seq(latencies), 99), ticks_per_second))")],
         modifies=[], allocates=True,
         note="numpy.mean / numpy.percentile are uninterpreted functions of the sequence; that they raise/warn on an empty one is modelled as an exception edge")


def prepare(prog):
    """the three bookkeeping blocks of the main loop of run_simulator, taken verbatim from the current source"""
    from pyvc.extract import extract_block
    q = f"{MS}:run_simulator"
    out = {}
    # A: the arrival loop   for p in new_pipelines: ...
    isA = lambda s: isinstance(s, ast.For) and ast.unparse(s.target) == "p" and ast.unparse(s.iter) == "new_pipelines"
    cnt = []
    def oneA(s):
        cnt.append(s)
        return len(cnt) == 1
    def attempt(key, *a):
        try:
            out[key] = extract_block(*a)
        except KeyError as e:
            out[key] = ("lost", str(e))      # that block's contract is then reported as unreachable on its own
    attempt("A", prog, q, "sim_track_arrivals", isA, oneA,
            ["new_pipelines", "tick_number", "outstanding_pipelines", "pipeline_arrivals_by_priority"], "None")
    # B: the counters   num_pipelines_created += ... up to (not including) the completion sweep
    isB = lambda s: isinstance(s, ast.AugAssign) and ast.unparse(s.target) == "num_pipelines_created"
    notC = lambda s: not (isinstance(s, ast.If) and ast.unparse(s.test) == "executor_results")
    attempt("B", prog, q, "sim_count", isB, notC,
            ["num_pipelines_created", "num_assignments", "num_suspenions", "num_failures", "failure_error_counts",
             "new_pipelines", "assignments", "suspensions", "executor_results"],
            "(num_pipelines_created, num_assignments, num_suspenions, num_failures)")
    # C: the completion sweep   if executor_results: for pipeline_id in list(outstanding_pipelines.keys()): ...
    isC = lambda s: isinstance(s, ast.If) and ast.unparse(s.test) == "executor_results"
    cntc = []
    def oneC(s):
        cntc.append(s)
        return len(cntc) == 1
    attempt("C", prog, q, "sim_sweep", isC, oneC,
            ["executor_results", "outstanding_pipelines", "pipeline_latencies_by_priority", "tick_number"], "None")
    # D: the end-of-run aggregation   all_arrivals = ... ; ... ; pipelines_batch = compute_pipeline_stats(...)
    isD = lambda s: isinstance(s, ast.Assign) and ast.unparse(s.targets[0]) == "all_arrivals"
    inD = lambda s: isinstance(s, ast.Assign) and ast.unparse(s.targets[0]) in ("all_arrivals", "all_latencies", "pipelines_all", "pipelines_query",
                                                                               "pipelines_interactive", "pipelines_batch")
    attempt("D", prog, q, "sim_aggregate", isD, inD, ["pipeline_arrivals_by_priority", "pipeline_latencies_by_priority", "ticks_per_second"],
            "(pipelines_all, pipelines_query, pipelines_interactive, pipelines_batch)")
    try:
        out["status_fields"] = prepare_status_fields(prog)
    except KeyError as e:
        out["status_fields"] = ("lost", str(e))
    return out


STATUS_FIELDS = ("pipeline", "arrival_tick", "finish_tick")


def prepare_status_fields(prog):
    """the top-level plain assignments of PipelineRuntimeStatus.__init__ to self.pipeline / self.arrival_tick / self.finish_tick,
    in order, as a constructor `PipelineRuntimeStatus.fields.__init__(self, pipeline)`.  Dropped: the creation and filling of the
    operator table and the state counts; the extraction refuses if a dropped statement stores to one of the three fields or
    rebinds `pipeline` (calls in dropped statements are assumed not to touch these fields)."""
    from pyvc.extract import register_block, stores_of
    q = "eudoxia.workload.runtime_status:PipelineRuntimeStatus.__init__"
    fn = prog.func(q)
    kept = []
    for st in fn.body:
        tgt = None
        if isinstance(st, ast.Assign) and len(st.targets) == 1:
            tgt = st.targets[0]
        elif isinstance(st, ast.AnnAssign) and st.value is not None:
            tgt = st.target
        if isinstance(tgt, ast.Attribute) and isinstance(tgt.value, ast.Name) and tgt.value.id == "self" and tgt.attr in STATUS_FIELDS:
            kept.append(st)
            continue
        names, _other = stores_of(st)
        fields = {x.attr for x in ast.walk(st) if isinstance(x, ast.Attribute) and isinstance(x.ctx, (ast.Store, ast.Del))}
        if fields & set(STATUS_FIELDS) or "pipeline" in names:
            raise KeyError(f"{q}: a statement other than a plain top-level assignment writes a tracked field (contract attachment lost)")
    if not kept:
        raise KeyError(f"{q}: no assignment to the tracked fields (contract attachment lost)")
    return register_block(prog, q, "PipelineRuntimeStatus.fields.__init__", kept, ["self", "pipeline"], "None")


def declare2(S: Spec):
    S.measure("isQuery", "Pipeline", "p", "1 if p.priority == Priority.QUERY else 0", INT)
    S.measure("isInteractive", "Pipeline", "p", "1 if p.priority == Priority.INTERACTIVE else 0", INT)
    S.measure("isBatch", "Pipeline", "p", "1 if p.priority == Priority.BATCH_PIPELINE else 0", INT)
    S.measure("isFailure", "ExecutionResult", "r", "1 if r.error is not None else 0", INT)
    S.measure("hasError", "ExecutionResult", "r", "1 if (r.error is not None and val(r.error) == e) else 0", INT, param=("e", STR))
    S.pred("Arriving", [("p", Ref("Pipeline"))],
           "p is not None and p.values is not None and implies(p._runtime_status is not None, p._runtime_status.arrival_tick is None and p._runtime_status.pipeline == p)")
    MP = "eudoxia.workload.pipeline"
    S.fn(f"{MP}:Pipeline.runtime_status#lazy", returns=Ref("PipelineRuntimeStatus"),
         requires=[],
         ensures=["result is not None", "result is self._runtime_status",
                  "implies(old(self._runtime_status) is not None, result is old(self._runtime_status))",
                  "implies(old(self._runtime_status) is None, fresh(result) and result.arrival_tick is None and result.finish_tick is None and result.pipeline == self)"],
         modifies=["self._runtime_status"], allocates=True,
         owners=["C06"],
         note="get-or-create of the real method, verified against the assumed summary of PipelineRuntimeStatus.__init__ below")
    MRS_ = "eudoxia.workload.runtime_status"
    if f"{MRS_}:PipelineRuntimeStatus.__init__" not in S.fns:
        S.fn(f"{MRS_}:PipelineRuntimeStatus.__init__", params={"pipeline": Ref("Pipeline")},
             requires=[], ensures=["self.pipeline == pipeline", "self.arrival_tick is None", "self.finish_tick is None"],
             modifies=[], allocates=True,
             note="assumed summary of the status constructor (a created status belongs to the given pipeline and has no arrival/finish tick yet; "
                  "its operator table is not described here); monitored natively")
        S.fns[f"{MRS_}:PipelineRuntimeStatus.__init__"].trusted = True
    S.fn(f"{MRS_}:PipelineRuntimeStatus.fields.__init__", owners=["C06"], params={"pipeline": Ref("Pipeline")},
         requires=[],
         ensures=[("a-created-status-has-no-ticks-yet", "self.pipeline == old(pipeline) and self.arrival_tick is None and self.finish_tick is None")],
         modifies=[],
         note="extracted from PipelineRuntimeStatus.__init__: the top-level assignments to pipeline / arrival_tick / finish_tick; discharges the "
              "field part of the assumed constructor summary above (what stays assumed: the table-building rest does not write these fields - "
              "checked syntactically by the extraction - and terminates)")

    S.fn(f"{MS}:sim_track_arrivals", owners=["C06"],
         params={"new_pipelines": List(Ref("Pipeline")), "tick_number": INT, "outstanding_pipelines": Dict(STR, Ref("Pipeline")),
                 "pipeline_arrivals_by_priority": Dict(Prio, INT)},
         locals={"p": Ref("Pipeline")},
         requires=["new_pipelines is not None", "all(Arriving(p) for p in new_pipelines)", "nodup(seq(new_pipelines))",
                   "all(pr in pipeline_arrivals_by_priority for pr in Priority)"],
         ensures=[("arrival-tick-recorded", "all(p._runtime_status is not None and p._runtime_status.arrival_tick == tick_number for p in new_pipelines)"),
                  ("per-priority-arrivals-query", "pipeline_arrivals_by_priority[Priority.QUERY] == old(pipeline_arrivals_by_priority[Priority.QUERY]) + Sum(seq(new_pipelines), 'isQuery')"),
                  ("per-priority-arrivals-interactive", "pipeline_arrivals_by_priority[Priority.INTERACTIVE] == old(pipeline_arrivals_by_priority[Priority.INTERACTIVE]) + Sum(seq(new_pipelines), 'isInteractive')"),
                  ("per-priority-arrivals-batch", "pipeline_arrivals_by_priority[Priority.BATCH_PIPELINE] == old(pipeline_arrivals_by_priority[Priority.BATCH_PIPELINE]) + Sum(seq(new_pipelines), 'isBatch')"),
                  ("arrived-are-outstanding", "all(p.pipeline_id in outstanding_pipelines for p in new_pipelines)"),
                  ("outstanding-kept", "all(k in outstanding_pipelines for k in old(keys(outstanding_pipelines)))")],
         modifies=["(p._runtime_status for p in new_pipelines)",
                   "(s.arrival_tick for s in every('PipelineRuntimeStatus') if any(p._runtime_status == s for p in new_pipelines))",
                   "contents(outstanding_pipelines)", "values(pipeline_arrivals_by_priority)"],
         variants={f"{MP}:Pipeline.runtime_status": f"{MP}:Pipeline.runtime_status#lazy"},
         loops={0: dict(idx="k", inv=[
             "all(new_pipelines[j]._runtime_status is not None and new_pipelines[j]._runtime_status.arrival_tick == tick_number for j in range(0, k))",
             "all(Arriving(new_pipelines[j]) for j in range(k, len(new_pipelines)))",
             "all(new_pipelines[j]._runtime_status is old(new_pipelines[j]._runtime_status) for j in range(k, len(new_pipelines)))",
             "pipeline_arrivals_by_priority[Priority.QUERY] == at_entry(pipeline_arrivals_by_priority[Priority.QUERY]) + Sum(take(seq(new_pipelines), k), 'isQuery')",
             "pipeline_arrivals_by_priority[Priority.INTERACTIVE] == at_entry(pipeline_arrivals_by_priority[Priority.INTERACTIVE]) + Sum(take(seq(new_pipelines), k), 'isInteractive')",
             "pipeline_arrivals_by_priority[Priority.BATCH_PIPELINE] == at_entry(pipeline_arrivals_by_priority[Priority.BATCH_PIPELINE]) + Sum(take(seq(new_pipelines), k), 'isBatch')",
             "all(pr in pipeline_arrivals_by_priority for pr in Priority)", "k <= len(new_pipelines)",
             "keys(pipeline_arrivals_by_priority) == at_entry(keys(pipeline_arrivals_by_priority))",
             "all(new_pipelines[j].pipeline_id in outstanding_pipelines for j in range(0, k))",
             "all(kk in outstanding_pipelines for kk in at_entry(keys(outstanding_pipelines)))"], unfold=["seq(new_pipelines)"])},
         allocates=True, note="block A of run_simulator main loop")

    S.fn(f"{MS}:sim_count", owners=["C06"],
         params={"num_pipelines_created": INT, "num_assignments": INT, "num_suspenions": INT, "num_failures": INT,
                 "failure_error_counts": DefaultDict(STR, INT), "new_pipelines": List(Ref("Pipeline")),
                 "assignments": List(Ref("Assignment")), "suspensions": List(Ref("Suspend")), "executor_results": List(Ref("ExecutionResult"))},
         returns=Tuple(INT, INT, INT, INT),
         locals={"failures": List(Ref("ExecutionResult")), "failure": Ref("ExecutionResult"), "r": Ref("ExecutionResult")},
         requires=["new_pipelines is not None and assignments is not None and suspensions is not None and executor_results is not None",
                   "all(r is not None for r in executor_results)"],
         ensures=[("pipelines-created", "result[0] == old(num_pipelines_created) + len(new_pipelines)"),
                  ("assignments-are-the-decisions-issued", "result[1] == old(num_assignments) + len(assignments)"),
                  ("suspensions-are-the-decisions-issued", "result[2] == old(num_suspenions) + len(suspensions)"),
                  ("failures-are-the-failed-results", "result[3] == old(num_failures) + Sum(seq(executor_results), 'isFailure')"),
                  ("per-error-counters", "all(failure_error_counts[e] == old(failure_error_counts[e]) + Sum(seq(executor_results), 'hasError', e) for e in every('str'))")],
         modifies=["contents(failure_error_counts)"], allocates=True,
         loops={0: dict(idx="k", inv=["k <= len(failures)",
                                      "all(failure_error_counts[e] == at_entry(failure_error_counts[e]) + Sum(take(seq(failures), k), 'hasError', e) for e in every('str'))"],
                        unfold=["seq(failures)"])},
         default_reads=True, note="block B of run_simulator main loop")

    # ---- block C: the completion sweep --------------------------------------------------------------
    S.pred("AllDone", [("p", Ref("Pipeline"))],
           "all(p._runtime_status.operator_states[o] == OperatorState.COMPLETED for o in p._runtime_status.operator_states)")
    S.pred("CountsDone", [("p", Ref("Pipeline"))],
           "p._runtime_status.state_counts[OperatorState.COMPLETED] == len(p._runtime_status.operator_states)")
    S.pred("OutstandingOK", [("d", Dict(STR, Ref("Pipeline")))],
           "all(d[k] is not None and d[k].pipeline_id == k and d[k]._runtime_status is not None and I1(d[k]._runtime_status) and d[k]._runtime_status.pipeline == d[k]"
           " and d[k]._runtime_status.arrival_tick is not None and d[k]._runtime_status.finish_tick is None for k in d)")
    S.pred("LatOK", [("lat", Dict(Prio, List(INT)))],
           "all(pr in lat and lat[pr] is not None for pr in Priority) and lat[Priority.QUERY] is not lat[Priority.INTERACTIVE]"
           " and lat[Priority.QUERY] is not lat[Priority.BATCH_PIPELINE] and lat[Priority.INTERACTIVE] is not lat[Priority.BATCH_PIPELINE]")
    KS = "at_entry(keys(outstanding_pipelines))"
    D0J = "at_entry(outstanding_pipelines[keys(outstanding_pipelines)[j]])"
    TOTAL = "len(pipeline_latencies_by_priority[Priority.QUERY]) + len(pipeline_latencies_by_priority[Priority.INTERACTIVE])" \
            " + len(pipeline_latencies_by_priority[Priority.BATCH_PIPELINE]) + len(outstanding_pipelines)"
    S.fn(f"{MS}:sim_sweep", owners=["C06"],
         params={"executor_results": List(Ref("ExecutionResult")), "outstanding_pipelines": Dict(STR, Ref("Pipeline")),
                 "pipeline_latencies_by_priority": Dict(Prio, List(INT)), "tick_number": INT},
         locals={"pipeline_id": STR, "pipeline": Ref("Pipeline"), "latency_ticks": INT},
         requires=["executor_results is not None", "nodup(keys(outstanding_pipelines))", "OutstandingOK(outstanding_pipelines)", "LatOK(pipeline_latencies_by_priority)"],
         ensures=[("no-results-no-sweep", "implies(len(executor_results) == 0, keys(outstanding_pipelines) == old(keys(outstanding_pipelines))"
                                          " and all(seq(pipeline_latencies_by_priority[pr]) == old(seq(pipeline_latencies_by_priority[pr])) for pr in Priority))"),
                  ("completed-iff-every-operator-completed",
                   "implies(len(executor_results) > 0, all((k in outstanding_pipelines) == (not AllDone(old(outstanding_pipelines[k]))) for k in old(keys(outstanding_pipelines))))"),
                  ("nothing-new-outstanding", "all(k in old(keys(outstanding_pipelines)) for k in outstanding_pipelines)"),
                  ("finish-tick-is-this-tick", "implies(len(executor_results) > 0, all(implies(AllDone(old(outstanding_pipelines[k])),"
                                               " old(outstanding_pipelines[k])._runtime_status.finish_tick == tick_number) for k in old(keys(outstanding_pipelines))))"),
                  ("still-outstanding-untouched", "OutstandingOK(outstanding_pipelines)"),
                  ("one-latency-entry-per-completion", f"{TOTAL} == old({TOTAL})"),
                  ("earlier-latencies-kept", "all(take(seq(pipeline_latencies_by_priority[pr]), old(len(pipeline_latencies_by_priority[pr]))) == old(seq(pipeline_latencies_by_priority[pr])) for pr in Priority)"),
                  ("new-latency-is-this-tick-minus-arrival-of-a-completed-pipeline-of-that-priority",
                   "all(all(any(CountsDone(old(outstanding_pipelines[k])) and old(outstanding_pipelines[k]).priority == pr"
                   " and pipeline_latencies_by_priority[pr][j] == tick_number - val(old(outstanding_pipelines[k])._runtime_status.arrival_tick)"
                   " for k in old(keys(outstanding_pipelines)))"
                   " for j in range(old(len(pipeline_latencies_by_priority[pr])), len(pipeline_latencies_by_priority[pr]))) for pr in Priority)"),
                  ],
         modifies=["(outstanding_pipelines[k]._runtime_status.finish_tick for k in outstanding_pipelines)", "contents(outstanding_pipelines)",
                   "contents(pipeline_latencies_by_priority[Priority.QUERY])", "contents(pipeline_latencies_by_priority[Priority.INTERACTIVE])",
                   "contents(pipeline_latencies_by_priority[Priority.BATCH_PIPELINE])"],
         variants={f"{MP}:Pipeline.runtime_status": f"{MP}:Pipeline.runtime_status"},
         allocates=True,
         loops={0: dict(idx="i", inv=[
             f"i <= len({KS})", f"nodup({KS})", "nodup(keys(outstanding_pipelines))", "len(executor_results) > 0", "LatOK(pipeline_latencies_by_priority)",
             "keys(pipeline_latencies_by_priority) == at_entry(keys(pipeline_latencies_by_priority))",
             "all(pipeline_latencies_by_priority[pr] is at_entry(pipeline_latencies_by_priority[pr]) for pr in Priority)",
             # visited keys: outstanding iff not all done; unvisited keys: still outstanding
             f"all(({KS}[j] in outstanding_pipelines) == (not CountsDone({D0J})) for j in range(0, i))",
             f"all({KS}[j] in outstanding_pipelines for j in range(i, len({KS})))",
             f"all(k in {KS} for k in outstanding_pipelines)",
             f"all(outstanding_pipelines[k] is at_entry(outstanding_pipelines[k]) for k in outstanding_pipelines)",
             f"all(implies(CountsDone({D0J}), {D0J}._runtime_status.finish_tick == tick_number) for j in range(0, i))",
             "OutstandingOK(outstanding_pipelines)",
             f"{TOTAL} == at_entry({TOTAL})",
             "all(len(pipeline_latencies_by_priority[pr]) >= at_entry(len(pipeline_latencies_by_priority[pr])) for pr in Priority)",
             "all(take(seq(pipeline_latencies_by_priority[pr]), at_entry(len(pipeline_latencies_by_priority[pr]))) == at_entry(seq(pipeline_latencies_by_priority[pr])) for pr in Priority)",
             "all(all(any(CountsDone(at_entry(outstanding_pipelines[k])) and at_entry(outstanding_pipelines[k]).priority == pr"
             " and pipeline_latencies_by_priority[pr][j] == tick_number - val(at_entry(outstanding_pipelines[k])._runtime_status.arrival_tick)"
             " for k in at_entry(keys(outstanding_pipelines)))"
             " for j in range(at_entry(len(pipeline_latencies_by_priority[pr])), len(pipeline_latencies_by_priority[pr]))) for pr in Priority)",
         ])},
         exists_mem_patterns=True, note="block C of run_simulator main loop")


def declare3(S: Spec):
    """end-of-run aggregation of run_simulator (extracted): per-priority statistics partition the totals"""
    LAT = "pipeline_latencies_by_priority"
    ARR = "pipeline_arrivals_by_priority"
    S.fn(f"{MS}:sim_aggregate", owners=["C06"],
         params={ARR: Dict(Prio, INT), LAT: Dict(Prio, List(INT)), "ticks_per_second": INT},
         returns=Tuple(Ref("PipelineStats"), Ref("PipelineStats"), Ref("PipelineStats"), Ref("PipelineStats")),
         locals={"all_arrivals": INT, "all_latencies": List(INT)},
         requires=["ticks_per_second >= 1", f"{ARR} is not None and len({ARR}) == 3 and nodup(keys({ARR})) and all(pr in {ARR} for pr in Priority)",
                   f"{LAT} is not None and len({LAT}) == 3 and nodup(keys({LAT})) and LatOK({LAT})",
                   f"all(allocated({LAT}[pr]) for pr in Priority)"],
         ensures=[("arrivals-per-priority-partition-the-total",
                   f"result[0].arrival_count == {ARR}[Priority.QUERY] + {ARR}[Priority.INTERACTIVE] + {ARR}[Priority.BATCH_PIPELINE]"
                   " and result[0].arrival_count == result[1].arrival_count + result[2].arrival_count + result[3].arrival_count"),
                  ("completions-per-priority-partition-the-total",
                   "result[0].completion_count == result[1].completion_count + result[2].completion_count + result[3].completion_count"),
                  ("each-class-reports-its-own-counters",
                   f"result[1].arrival_count == {ARR}[Priority.QUERY] and result[2].arrival_count == {ARR}[Priority.INTERACTIVE]"
                   f" and result[3].arrival_count == {ARR}[Priority.BATCH_PIPELINE]"
                   f" and result[1].completion_count == len({LAT}[Priority.QUERY]) and result[2].completion_count == len({LAT}[Priority.INTERACTIVE])"
                   f" and result[3].completion_count == len({LAT}[Priority.BATCH_PIPELINE])")],
         modifies=[], allocates=True,
         note="extracted: from `all_arrivals = ...` to `pipelines_batch = ...` at the end of run_simulator; a sum over a dictionary "
              "with exactly three keys is expanded term by term")

"""Contracts for PipelineRuntimeStatus.get_ops and the naive scheduler (C17, C01 mechanism 3, C08)."""
from pyvc.ty import *  # noqa
from pyvc.spec import Spec

MS = "eudoxia.workload.runtime_status"
MN = "eudoxia.scheduler.naive"
OpState = Enum("OperatorState")


def declare(S: Spec):
    S.cls("Scheduler", {"executor": Ref("Executor"), "waiting_queue": List(Ref("Pipeline")), "multi_operator_containers": BOOL})
    # structural link between a pipeline, its status and its operators (established when the status is created)
    S.pred("StatusWF", [("st", Ref("PipelineRuntimeStatus"))],
           "st is not None and st.pipeline is not None and st.pipeline._runtime_status is st"
           " and all(op is not None and op.pipeline is st.pipeline and all(par in st.operator_states for par in op.parents)"
           "     for op in keys(st.operator_states))")
    S.pred("PipeOK", [("p", Ref("Pipeline"))], "p is not None and p._runtime_status is not None and StatusWF(p._runtime_status)")
    S.pred("ParentsDone", [("st", Ref("PipelineRuntimeStatus")), ("op", Ref("Operator"))],
           "all(st.operator_states[par] == OperatorState.COMPLETED for par in op.parents)")

    S.fn(f"{MS}:PipelineRuntimeStatus.get_ops", owners=["C01", "C17", "C12", "C08"],
         params={"state": SeqV(OpState), "require_parents_complete": BOOL},
         returns=List(Ref("Operator")),
         requires=["StatusWF(self)", "nodup(keys(self.operator_states))"],
         ensures=[("fresh-list", "result is not None and fresh(result)"),
                  ("sound", "all(op in self.operator_states and self.operator_states[op] in state"
                            " and implies(require_parents_complete, ParentsDone(self, op)) for op in result)"),
                  ("complete", "all(implies(self.operator_states[op] in state and implies(require_parents_complete, ParentsDone(self, op)),"
                               " op in result) for op in keys(self.operator_states))"),
                  ("no-duplicates", "nodup(result)"),
                  ("insertion-order", "all(all(implies(idx(seq(result), a) < idx(seq(result), b),"
                                      " idx(keys(self.operator_states), a) < idx(keys(self.operator_states), b)) for b in result) for a in result)")],
         modifies=[], allocates=True,
         locals={"result": List(Ref("Operator")), "allowed_states": SeqV(OpState)},
         loops={0: dict(idx="k", header="for (op, op_state) in self.operator_states.items()",
                        unfold=["keys(self.operator_states)"],
                        inv=["k <= len(keys(self.operator_states))", "result is not None and fresh(result)", "nodup(result)",
                             "all(op in take(keys(self.operator_states), k) and self.operator_states[op] in state"
                             " and implies(require_parents_complete, ParentsDone(self, op)) for op in result)",
                             "all(implies(self.operator_states[keys(self.operator_states)[j]] in state and"
                             " implies(require_parents_complete, ParentsDone(self, keys(self.operator_states)[j])),"
                             " keys(self.operator_states)[j] in result) for j in range(0, k))",
                             "all(all(implies(idx(seq(result), a) < idx(seq(result), b),"
                             " idx(keys(self.operator_states), a) < idx(keys(self.operator_states), b)) for b in result) for a in result)"])})


def declare2(S: Spec):
    # what a scheduler may rely on about the executor it reads (read-only for schedulers)
    S.pred("ExecShape", [("ex", Ref("Executor"))],
           "ex is not None and ex.pools is not None and ex.num_pools == len(ex.pools) and all(p is not None for p in ex.pools)")
    S.pred("QueueOK", [("q", SeqV(Ref("Pipeline")))], "all(PipeOK(p) and nodup(keys(p._runtime_status.operator_states)) for p in q)")
    # an assignment as the naive scheduler builds it (C17): the pool's whole free CPU and RAM, work of a pipeline
    # without failures, operators that were PENDING; in single-operator mode exactly one ready operator
    S.pred("NaiveAsg", [("s", Ref("Scheduler")), ("a", Ref("Assignment"))],
           "a is not None and 0 <= a.pool_id and a.pool_id < len(s.executor.pools)"
           " and a.cpu == s.executor.pools[a.pool_id].avail_cpu_pool and a.ram == s.executor.pools[a.pool_id].avail_ram_pool"
           " and a.cpu > 0 and a.ram > 0 and a.ops is not None and len(a.ops) >= 1"
           " and all(old(state(op)) == OperatorState.PENDING and state(op) == OperatorState.ASSIGNED for op in a.ops)"
           " and all(old(op.pipeline._runtime_status.state_counts[OperatorState.FAILED]) == 0 for op in a.ops)"
           " and all(op.pipeline is a.ops[0].pipeline for op in a.ops)"
           " and implies(not s.multi_operator_containers, len(a.ops) == 1"
           "             and all(old(ParentsDone(op.pipeline._runtime_status, op)) for op in a.ops))")

    S.fn(f"{MN}:naive_pipeline", owners=["C17", "C08"],
         params={"s": Ref("Scheduler"), "results": List(Ref("ExecutionResult")), "pipelines": List(Ref("Pipeline"))},
         returns=Tuple(List(Ref("Suspend")), List(Ref("Assignment"))),
         requires=["s is not None and results is not None and pipelines is not None and s.waiting_queue is not None",
                   "ExecShape(s.executor)", "GI1()", "QueueOK(seq(s.waiting_queue))", "QueueOK(seq(pipelines))"],
         ensures=[("never-suspends", "result[0] is not None and len(result[0]) == 0"),
                  ("one-container-per-pool", "all(all(implies(a1.pool_id == a2.pool_id, a1 is a2) for a2 in result[1]) for a1 in result[1])"),
                  ("whole-pool-no-failed-work-ready-op", "all(NaiveAsg(s, a) for a in result[1])"),
                  ("I1", "GI1()"),
                  ("queue-ok", "QueueOK(seq(s.waiting_queue))")],
         raises={},
         modifies=["star('dv:Operator:OperatorState')", "star('dv:OperatorState:int')", "contents(s.waiting_queue)"],
         allocates=True,
         locals={"suspensions": List(Ref("Suspend")), "assignments": List(Ref("Assignment")), "requeue_pipelines": List(Ref("Pipeline")),
                 "op_list": List(Ref("Operator"))},
         loops={0: dict(idx="k", header="for p in pipelines",
                        inv=["QueueOK(seq(s.waiting_queue))"]),
                1: dict(idx="k", header="for pool_id in range(s.executor.num_pools)",
                        inv=["GI1()", "QueueOK(seq(s.waiting_queue))", "QueueOK(seq(requeue_pipelines))",
                             "len(suspensions) == 0",
                             "all(state(o) == old(state(o)) for o in every('Operator') if not any(o in a.ops for a in assignments))",
                             "all(st.state_counts[OperatorState.FAILED] == old(st.state_counts[OperatorState.FAILED]) for st in every('PipelineRuntimeStatus'))",
                             "all(NaiveAsg(s, a) and a.pool_id < k for a in assignments)",
                             "all(all(implies(a1.pool_id == a2.pool_id, a1 is a2) for a2 in assignments) for a1 in assignments)"]),
                2: dict(header="while s.waiting_queue",
                        inv=["GI1()", "QueueOK(seq(s.waiting_queue))", "QueueOK(seq(requeue_pipelines))",
                             "len(suspensions) == 0",
                             "all(state(o) == old(state(o)) for o in every('Operator') if not any(o in a.ops for a in assignments))",
                             "all(st.state_counts[OperatorState.FAILED] == old(st.state_counts[OperatorState.FAILED]) for st in every('PipelineRuntimeStatus'))",
                             "all(NaiveAsg(s, a) and a.pool_id < pool_id for a in assignments)",
                             "all(all(implies(a1.pool_id == a2.pool_id, a1 is a2) for a2 in assignments) for a1 in assignments)"])})

"""Contracts for eudoxia/workload/runtime_status.py (C01, C02, C06)."""
from pyvc.ty import *  # noqa
from pyvc.spec import Spec

M = "eudoxia.workload.runtime_status"
OpState = Enum("OperatorState")


def declare(S: Spec):
    # I1: the per-state counters are the histogram of the operator states
    S.pred("I1", [("st", Ref("PipelineRuntimeStatus"))],
           "all(s in st.state_counts and st.state_counts[s] == Cnt(st.operator_states, s) for s in OperatorState)"
           " and nodup(keys(st.operator_states))")
    # global form: every runtime status satisfies I1 (only `transition` writes these dictionaries - scan-checked)
    S.pred("GI1", [], "all(I1(s) for s in every('PipelineRuntimeStatus'))")
    # the admissibility test, written from the property statement: the requested change is an edge of the
    # lifecycle table and an operator starts only when all its parents are completed
    S.pred("Admissible", [("st", Ref("PipelineRuntimeStatus")), ("op", Ref("Operator")), ("new", OpState)],
           "new in VALID_TRANSITIONS[st.operator_states[op]] and "
           "implies(new == OperatorState.RUNNING, all(st.operator_states[p] == OperatorState.COMPLETED for p in op.parents))")
    S.pred("KnownOp", [("st", Ref("PipelineRuntimeStatus")), ("op", Ref("Operator"))],
           "op is not None and op.pipeline is not None and op in st.operator_states and all(p in st.operator_states for p in op.parents)")

    S.fn(f"{M}:PipelineRuntimeStatus.check_transition", owners=["C01", "C02"],
         params={"operator": Ref("Operator"), "new_state": OpState},
         returns=Tuple(BOOL, Opt(STR)),
         requires=["KnownOp(self, operator)"],
         ensures=[("verdict", "result[0] == Admissible(self, operator, new_state)")],
         modifies=[],
         loops={0: dict(idx="k", header="for parent in operator.parents",
                        inv=["all(self.operator_states[operator.parents[j]] == OperatorState.COMPLETED for j in range(0, k))"])})

    S.fn(f"{M}:PipelineRuntimeStatus.transition", owners=["C01", "C02"],
         params={"operator": Ref("Operator"), "new_state": OpState},
         requires=["KnownOp(self, operator)", "GI1()"],
         ensures=[("admissible", "old(Admissible(self, operator, new_state))"),
                  ("state-set", "self.operator_states[operator] == new_state"),
                  ("functional", "vals(self.operator_states) == store(old(vals(self.operator_states)), operator, new_state)"),
                  ("counts", "all(self.state_counts[s] == old(self.state_counts[s]) - (1 if old(self.operator_states[operator]) == s else 0)"
                             " + (1 if new_state == s else 0) for s in OperatorState)"),
                  ("I1", "GI1()")],
         raises={"AssertionError": ["not old(Admissible(self, operator, new_state))",
                                    "vals(self.operator_states) == old(vals(self.operator_states))",
                                    "GI1()",
                                    "all(self.state_counts[s] == old(self.state_counts[s]) for s in OperatorState)"]},
         modifies=["values(self.operator_states)", "values(self.state_counts)"])

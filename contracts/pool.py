"""Contracts for eudoxia/executor/resource_pool.py and executor.py (C03, C04, C09, C10, C11)."""
from pyvc.ty import *  # noqa
from pyvc.spec import Spec

MR = "eudoxia.executor.resource_pool"
ME = "eudoxia.executor.executor"


def declare(S: Spec):
    S.measure("cpuA", "Assignment", "a", "a.cpu")
    S.measure("ramA", "Assignment", "a", "a.ram")
    S.measure("cpuC", "Container", "c", "c.assignment.cpu")
    S.measure("ramC", "Container", "c", "c.assignment.ram")

    S.fn(f"{MR}:ResourcePool.verify_valid_assignment",
         params={"assignments": List(Ref("Assignment"))},
         requires=["assignments is not None"],
         ensures=[("cpu-fits", "Sum(assignments, 'cpuA') <= self.avail_cpu_pool"),
                  ("ram-fits", "implies(not self.allow_memory_overcommit, Sum(assignments, 'ramA') <= self.avail_ram_pool)")],
         raises={"AssertionError": ["Sum(assignments, 'cpuA') > self.avail_cpu_pool or "
                                    "(not self.allow_memory_overcommit and Sum(assignments, 'ramA') > self.avail_ram_pool)"]},
         modifies=[],
         locals={"cpu_to_be_alloc": REAL, "ram_to_be_alloc": REAL},
         loops={0: dict(idx="k", header="for a in assignments",
                        inv=["cpu_to_be_alloc == Sum(take(assignments, k), 'cpuA')",
                             "ram_to_be_alloc == Sum(take(assignments, k), 'ramA')", "k <= len(assignments)"])})

    S.fn(f"{MR}:ResourcePool.get_container_by_id",
         params={"container_id": STR}, returns=Ref("Container"),
         requires=[],
         ensures=[("found", "implies(result is not None, result in self.active_containers and result.container_id == container_id)"),
                  ("none-iff-absent", "implies(result is None, all(c.container_id != container_id for c in self.active_containers))")],
         modifies=[],
         loops={0: dict(idx="k", header="for container in self.active_containers",
                        inv=["all(self.active_containers[j].container_id != container_id for j in range(0, k))"])})

    S.fn(f"{MR}:ResourcePool.verify_valid_suspend",
         params={"suspensions": List(Ref("Suspend"))},
         requires=["suspensions is not None"],
         ensures=[("all-suspendable", "all(any(c.container_id == s.container_id and c._can_suspend for c in self.active_containers)"
                                      " for s in suspensions)")],
         raises={"AssertionError": [], "AttributeError": []},
         modifies=[],
         loops={0: dict(idx="k", header="for s in suspensions",
                        inv=["all(any(c.container_id == suspensions[j].container_id and c._can_suspend for c in self.active_containers)"
                             " for j in range(0, k))"])})

    S.fn(f"{MR}:ResourcePool._reconcile_consumed_ram",
         requires=[],
         ensures=[("recount", "self.consumed_ram_gb == Sum(self.active_containers, 'Container._current_memory')")],
         modifies=["self.consumed_ram_gb"])

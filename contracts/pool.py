"""Contracts for eudoxia/executor/resource_pool.py and executor.py (C03, C04, C09, C10, C11)."""
from pyvc.ty import *  # noqa
from pyvc.spec import Spec

MR = "eudoxia.executor.resource_pool"
ME = "eudoxia.executor.executor"


def declare(S: Spec):
    S.measure("cpuA", "Assignment", "a", "a.cpu")
    S.measure("ramA", "Assignment", "a", "a.ram")
    S.measure("cpuC", "Container", "c", "c.assignment.cpu")
    S.measure("ramC", "Container", "c", "c.assignment.ram")

    S.fn(f"{MR}:ResourcePool.verify_valid_assignment", owners=["C03", "C08"],
         params={"assignments": List(Ref("Assignment"))},
         requires=["assignments is not None"],
         ensures=[("cpu-fits", "Sum(assignments, 'cpuA') <= self.avail_cpu_pool"),
                  ("ram-fits", "implies(not self.allow_memory_overcommit, Sum(assignments, 'ramA') <= self.avail_ram_pool)")],
         raises={"AssertionError": ["Sum(assignments, 'cpuA') > self.avail_cpu_pool or "
                                    "(not self.allow_memory_overcommit and Sum(assignments, 'ramA') > self.avail_ram_pool)"]},
         modifies=[],
         locals={"cpu_to_be_alloc": REAL, "ram_to_be_alloc": REAL},
         loops={0: dict(idx="k", header="for a in assignments",
                        inv=["cpu_to_be_alloc == Sum(take(assignments, k), 'cpuA')",
                             "ram_to_be_alloc == Sum(take(assignments, k), 'ramA')", "k <= len(assignments)"])})

    S.fn(f"{MR}:ResourcePool.get_container_by_id", owners=["C10"],
         params={"container_id": STR}, returns=Ref("Container"),
         requires=[],
         ensures=[("found", "implies(result is not None, result in self.active_containers and result.container_id == container_id)"),
                  ("none-iff-absent", "implies(result is None, all(c.container_id != container_id for c in self.active_containers))")],
         modifies=[],
         loops={0: dict(idx="k", header="for container in self.active_containers",
                        inv=["all(self.active_containers[j].container_id != container_id for j in range(0, k))"])})

    S.fn(f"{MR}:ResourcePool.verify_valid_suspend", owners=["C10", "C08"],
         params={"suspensions": List(Ref("Suspend"))},
         requires=["suspensions is not None"],
         ensures=[("all-suspendable", "all(any(c.container_id == s.container_id and c._can_suspend for c in self.active_containers)"
                                      " for s in suspensions)")],
         raises={"AssertionError": [], "AttributeError": []},
         modifies=[],
         loops={0: dict(idx="k", header="for s in suspensions",
                        inv=["all(any(c.container_id == suspensions[j].container_id and c._can_suspend for c in self.active_containers)"
                             " for j in range(0, k))"])})

    S.fn(f"{MR}:ResourcePool._reconcile_consumed_ram", owners=["C04"],
         requires=[],
         ensures=[("recount", "self.consumed_ram_gb == Sum(self.active_containers, 'Container._current_memory')")],
         modifies=["self.consumed_ram_gb"])


def declare2(S: Spec):
    # --- per-container facts the pool relies on -----------------------------------------------------
    # a container in the active list: live with the visible shape, or already ended in this tick
    S.pred("SuspendableOK", [("c", Ref("Container"))],
           "implies(c._can_suspend and not c._completed and c._current_memory <= c.assignment.ram,"
           " c._current_op_idx >= 1 and c._current_op_idx < len(c.assignment.ops)"
           " and state(c.assignment.ops[c._current_op_idx]) == OperatorState.ASSIGNED)")
    # how a container that has ended looks (C09): success = all operators completed, failure = an error, a completed
    # prefix and a failed rest
    S.pred("EndedShape", [("c", Ref("Container"))],
           "CWF(c) and Prefix(c, c._current_op_idx) and"
           " ((c.error is None and c._current_op_idx == len(c.assignment.ops)) or"
           "  (c.error is not None and c.error != '' and c._current_op_idx < len(c.assignment.ops)"
           "   and all(state(c.assignment.ops[j]) == OperatorState.FAILED for j in range(c._current_op_idx, len(c.assignment.ops)))))")
    S.pred("ActiveOK", [("p", Ref("ResourcePool")), ("c", Ref("Container"))],
           "c is not None and c.pool is p and c.assignment is not None and c.assignment.ram > 0 and c.assignment.cpu >= 1"
           " and c.assignment.ops is not None and len(c.assignment.ops) >= 1"
           " and (c._completed or LiveShape(c)) and implies(c._completed, c._current_memory == 0 and EndedShape(c))"
           " and c._tick_iter is not None and c._tick_iter.owner is c and SuspendableOK(c)")
    S.pred("OwnOp", [("p", Ref("ResourcePool")), ("o", Ref("Operator"))],
           "any(o in c.assignment.ops for c in p.active_containers)")
    # distinct containers of a pool never share an operator (C02: an operator belongs to at most one live container)
    S.pred("OpsDisjoint", [("s", SeqV(Ref("Container")))],
           "all(all(all(o not in c2.assignment.ops for o in c1.assignment.ops) for c2 in s if c2 is not c1) for c1 in s)")
    S.pred("Score", [("c", Ref("Container"))], "rmul(c._current_memory, rdiv(c._current_memory, c.assignment.ram))")
    S.pred("Candidate", [("c", Ref("Container"))], "not c._completed and c._current_memory > 0")

    KILL_MOD = ["(values(o.pipeline._runtime_status.operator_states) for c in self.active_containers for o in c.assignment.ops)",
                "(values(o.pipeline._runtime_status.state_counts) for c in self.active_containers for o in c.assignment.ops)",
                "(c._current_memory for c in self.active_containers)", "(c._completed for c in self.active_containers)",
                "(c.error for c in self.active_containers)", "self.consumed_ram_gb"]
    S.fn(f"{MR}:ResourcePool._run_out_of_memory_killer", owners=["C11", "C04"],
         requires=["nodup(self.active_containers)", "GI1()",
                   "all(ActiveOK(self, c) for c in self.active_containers)",
                   "OpsDisjoint(seq(self.active_containers))",
                   "self.consumed_ram_gb == Sum(self.active_containers, 'Container._current_memory')"],
         ensures=[("individual-limits", "C04| all(c._current_memory <= c.assignment.ram for c in self.active_containers)"),
                  ("fits-or-nothing-left", "C04,C11| self.consumed_ram_gb <= self.max_ram_pool or all(not Candidate(c) for c in self.active_containers)"),
                  ("usage-truthful", "C04| self.consumed_ram_gb == Sum(self.active_containers, 'Container._current_memory')"),
                  ("kill-justified", "C04| all(implies(c._completed and not old(c._completed),"
                                     " old(c._current_memory) > c.assignment.ram or old(self.consumed_ram_gb) > self.max_ram_pool)"
                                     " for c in self.active_containers)"),
                  ("ended-stay-ended", "all(implies(old(c._completed), c._completed and c.error == old(c.error)) for c in self.active_containers)"),
                  ("killed-report-oom", "all(implies(c._completed and not old(c._completed), c.error == 'OOM') for c in self.active_containers)"),
                  ("survivors-untouched", "all(implies(not c._completed, c._current_memory == old(c._current_memory) and c._current_op_idx == old(c._current_op_idx))"
                                          " for c in self.active_containers)"),
                  ("active-ok", "all(ActiveOK(self, c) for c in self.active_containers)"), ("I1", "GI1()"),
                  ("highest-score-first", "C11| all(all(implies(c._completed and not old(c._completed) and old(c._current_memory) <= c.assignment.ram and Candidate(s),"
                                          " old(Score(c)) >= Score(s)) for s in self.active_containers) for c in self.active_containers)"),
                  ("never-chosen", "C11| all(implies(old(c._current_memory) <= 0 or old(c._completed), c._completed == old(c._completed)) for c in self.active_containers)"),
                  ("list-kept", "seq(self.active_containers) == old(seq(self.active_containers))"),
                  ("only-own-operators", "all(state(o) == old(state(o)) for o in every('Operator') if not OwnOp(self, o))"),
                  ("only-own-containers", "all(c._completed == old(c._completed) and c.error == old(c.error) and c._current_memory == old(c._current_memory)"
                                          " for c in every('Container') if old(allocated(c)) and c not in self.active_containers)")],
         modifies=KILL_MOD,
         locals={"scored": List(Tuple(REAL, Ref("Container")))},
         loops={0: dict(idx="k", header="for c in self.active_containers",
                        inv=["k <= len(self.active_containers)", "GI1()",
                             "all(ActiveOK(self, c) for c in self.active_containers)",
                             "self.consumed_ram_gb == Sum(self.active_containers, 'Container._current_memory')",
                             "self.consumed_ram_gb <= old(self.consumed_ram_gb)", "all(state(o) == old(state(o)) for o in every('Operator') if not OwnOp(self, o))",
                             "all(self.active_containers[j]._current_memory <= self.active_containers[j].assignment.ram for j in range(0, k))",
                             "all(implies(c._completed and not old(c._completed), old(c._current_memory) > c.assignment.ram and c.error == 'OOM')"
                             " for c in self.active_containers)",
                             "all(implies(not c._completed, c._current_memory == old(c._current_memory) and c._current_op_idx == old(c._current_op_idx))"
                             " for c in self.active_containers)",
                             "all(implies(old(c._completed), c._completed and c.error == old(c.error)) for c in self.active_containers)"]),
                1: dict(idx="k", header="for c in self.active_containers",
                        inv=["k <= len(self.active_containers)",
                             "all(t[1] in self.active_containers and Candidate(t[1]) and t[0] == Score(t[1]) for t in scored)",
                             "all(idx(seq(self.active_containers), t[1]) < k for t in scored)",
                             "all(implies(Candidate(self.active_containers[j]), any(t[1] is self.active_containers[j] for t in scored)) for j in range(0, k))",
                             "nodup(scored)",
                             "all(all(implies(t1[1] is t2[1], t1 == t2) for t2 in scored) for t1 in scored)"]),
                2: dict(idx="k", header="for (_, victim) in scored",
                        inv=["k <= len(scored)", "GI1()", "all(state(o) == old(state(o)) for o in every('Operator') if not OwnOp(self, o))",
                             "all(ActiveOK(self, c) for c in self.active_containers)",
                             "self.consumed_ram_gb == Sum(self.active_containers, 'Container._current_memory')",
                             "all(scored[j][1]._completed and scored[j][1].error == 'OOM' for j in range(0, k))",
                             "all(not scored[j][1]._completed and scored[j][1]._current_memory == at_entry(scored[j][1]._current_memory)"
                             " and scored[j][1]._current_op_idx == at_entry(scored[j][1]._current_op_idx) for j in range(k, len(scored)))",
                             "all(implies(not any(t[1] is c for t in scored), c._completed == at_entry(c._completed) and c.error == at_entry(c.error)"
                             " and c._current_memory == at_entry(c._current_memory) and c._current_op_idx == at_entry(c._current_op_idx))"
                             " for c in self.active_containers)",
                             "implies(k >= 1, self.consumed_ram_gb + at_entry(scored[k - 1][1]._current_memory) > self.max_ram_pool)"])})


def declare3(S: Spec):
    A = "self.active_containers"
    SU = "self.suspending_containers"
    # conservation of CPU and RAM (C03), written from the statement
    S.pred("Conserved", [("p", Ref("ResourcePool"))],
           "p.avail_cpu_pool + Sum(p.active_containers, 'cpuC') + Sum(p.suspending_containers, 'cpuC') == p.max_cpu_pool and "
           "p.avail_ram_pool + Sum(p.active_containers, 'ramC') + Sum(p.suspending_containers, 'ramC') == p.max_ram_pool")
    S.pred("ListsOK", [("p", Ref("ResourcePool"))],
           "nodup(p.active_containers) and nodup(p.suspending_containers)"
           " and all(c not in p.suspending_containers for c in p.active_containers)")
    S.pred("SuspOK", [("p", Ref("ResourcePool")), ("c", Ref("Container"))],
           "c is not None and c.pool is p and CWF(c) and c.assignment.ram > 0 and c.assignment.cpu >= 1 and not c._completed"
           " and c._suspend_ticks_left is not None and c._suspend_ticks_left >= 1 and c._current_memory == 0"
           " and all(state(op) == OperatorState.SUSPENDING for op in rest(c))")
    S.pred("LiveDisjoint", [("p", Ref("ResourcePool"))],
           "OpsDisjoint(cat(seq(p.active_containers), seq(p.suspending_containers)))")
    S.pred("PoolInv", [("p", Ref("ResourcePool"))],
           "Conserved(p) and ListsOK(p) and LiveDisjoint(p)"
           " and all(ActiveOK(p, c) and not c._completed and c._current_memory <= c.assignment.ram for c in p.active_containers)"
           " and all(SuspOK(p, c) for c in p.suspending_containers)"
           " and p.consumed_ram_gb == Sum(p.active_containers, 'Container._current_memory')"
           " and p.avail_cpu_pool >= 0 and implies(not p.allow_memory_overcommit, p.avail_ram_pool >= 0)"
           " and p.ticks_per_second >= 1")
    # an assignment the executor may turn into a container (fresh from Assignment.__init__, handed over once)
    S.pred("Startable", [("a", Ref("Assignment"))],
           "a is not None and a.ops is not None and nodup(a.ops) and a.cpu >= 1 and a.ram > 0"
           " and all(WFop(op) and OpSegsOK(op) and state(op) == OperatorState.ASSIGNED for op in a.ops)")
    S.pred("BatchOK", [("p", Ref("ResourcePool")), ("asg", SeqV(Ref("Assignment")))],
           "nodup(asg) and all(Startable(a) for a in asg)"
           " and all(all(all(o not in a2.ops for o in a1.ops) for a2 in asg if a2 is not a1) for a1 in asg)"
           " and all(all(all(o not in c.assignment.ops for o in a.ops) for c in p.active_containers) for a in asg)"
           " and all(all(all(o not in c.assignment.ops for o in a.ops) for c in p.suspending_containers) for a in asg)")
    S.pred("IdsOK", [("s", SeqV(Ref("Container")))],
           "all(c.container_id == fmt('c{}', unfmt('c{}', 0, c.container_id))"
           " and unfmt('c{}', 0, c.container_id) < Container.next_container_num for c in s)"
           " and all(all(implies(c1.container_id == c2.container_id, c1 is c2) for c2 in s) for c1 in s)")

    # operators this pool may touch in one tick: those of its live containers and of the batch it is handed
    S.pred("Touched", [("p", Ref("ResourcePool")), ("asg", SeqV(Ref("Assignment"))), ("o", Ref("Operator"))],
           "any(o in c.assignment.ops for c in old(seq(p.active_containers)))"
           " or any(o in c.assignment.ops for c in old(seq(p.suspending_containers)))"
           " or any(o in a.ops for a in asg)")
    UNTOUCHED = "all(state(o) == old(state(o)) for o in every('Operator') if not Touched(self, seq(assignments), o))"
    ORIGIN = ("all(c in old(seq(self.active_containers)) or c in old(seq(self.suspending_containers)) or c.assignment in assignments"
              " for c in self.active_containers) and "
              "all(c in old(seq(self.active_containers)) or c in old(seq(self.suspending_containers)) or c.assignment in assignments"
              " for c in self.suspending_containers)")
    # every container that was running at entry is still in a list (its outcome is decided in the last two loops)
    ALIVE0 = ("all(c in self.active_containers or c in self.suspending_containers or c in self.suspended_containers"
              " for c in old(seq(self.active_containers)))")
    STARTED = "all(any(c.assignment is a for c in self.active_containers) or any(r.ops is a.ops for r in {res}) for a in {seq})"
    # a result is a success exactly when all operators completed; a failure names an error and leaves a completed
    # prefix followed by failed operators (no completed operator after a failed one, the last one failed)
    S.pred("ResultShape", [("r", Ref("ExecutionResult"))],
           "r is not None and r.ops is not None and len(r.ops) >= 1 and"
           " implies(r.error is None, all(state(o) == OperatorState.COMPLETED for o in r.ops)) and"
           " implies(r.error is not None, r.error != '' and state(r.ops[len(r.ops) - 1]) == OperatorState.FAILED"
           " and all(state(o) in (OperatorState.COMPLETED, OperatorState.FAILED) for o in r.ops)"
           " and all(implies(state(r.ops[j]) == OperatorState.FAILED, state(r.ops[j + 1]) == OperatorState.FAILED) for j in range(0, len(r.ops) - 1)))")
    RES = "len(results) == len(to_remove)"
    RES2 = ("all(results[j].ops is to_remove[j].assignment.ops"
            " and results[j].container_id == to_remove[j].container_id for j in range(0, len(results)))")
    RES3 = "all(ResultShape(r) for r in results)"
    CTX = ["GI1()", ORIGIN, UNTOUCHED, "Container.next_container_num >= old(Container.next_container_num)", "ListsOK(self)", "LiveDisjoint(self)", "IdsOK(seq(self.active_containers))", "self.ticks_per_second >= 1", "self.i == old(self.i) + 1"]
    ACT0 = "all(ActiveOK(self, c) for c in self.active_containers)"
    ACT = "all(ActiveOK(self, c) and c._current_memory <= c.assignment.ram for c in self.active_containers)"
    ACT_LIVE = "all(not c._completed for c in self.active_containers)"
    SUS = "all(SuspOK(self, c) for c in self.suspending_containers)"
    USAGE = "self.consumed_ram_gb == Sum(self.active_containers, 'Container._current_memory')"

    NEG = "self.avail_cpu_pool >= 0 and implies(not self.allow_memory_overcommit, self.avail_ram_pool >= 0)"
    S.fn(f"{MR}:ResourcePool.run_one_tick", owners=["C02", "C03", "C04", "C09", "C10"],
         params={"suspensions": List(Ref("Suspend")), "assignments": List(Ref("Assignment"))},
         returns=List(Ref("ExecutionResult")),
         requires=["suspensions is not None and assignments is not None", "PoolInv(self)", "GI1()",
                   "IdsOK(seq(self.active_containers))", "BatchOK(self, seq(assignments))"],
         ensures=[("conserved", "C03| Conserved(self)"),
                  ("never-oversold", "C03| self.avail_cpu_pool >= 0 and implies(not self.allow_memory_overcommit, self.avail_ram_pool >= 0)"),
                  ("lists-ok", "ListsOK(self)"), ("live-disjoint", "LiveDisjoint(self)"),
                  ("active-ok", "all(ActiveOK(self, c) and not c._completed and c._current_memory <= c.assignment.ram for c in self.active_containers)"),
                  ("suspending-ok", "all(SuspOK(self, c) for c in self.suspending_containers)"),
                  ("I1", "GI1()"), ("ids-ok", "IdsOK(seq(self.active_containers))"),
                  ("only-own-operators", "C02,C09| " + UNTOUCHED),
                  ("every-assignment-started", "C09| " + STARTED.format(seq="seq(assignments)", res="result")),
                  ("result-shape", "C09| all(ResultShape(r) for r in result)"),
                  ("one-result-per-ended-container", "C09| all(c in self.active_containers or c in self.suspending_containers or c in self.suspended_containers"
                                                     " or any(r.container_id == c.container_id and r.ops is c.assignment.ops for r in result)"
                                                     " for c in old(seq(self.active_containers)))"),
                  ("id-counter-monotone", "Container.next_container_num >= old(Container.next_container_num)"),
                  ("tick-counted", "C09,C10| self.i == old(self.i) + 1"),
                  ("pool-invariant", "PoolInv(self)"),
                  ("memory-limits", "C04| all(c._current_memory <= c.assignment.ram for c in self.active_containers)"),
                  ("usage-truthful", "C04| " + USAGE),
                  ("fits-or-idle", "C04| self.consumed_ram_gb <= self.max_ram_pool or all(c._current_memory <= 0 for c in self.active_containers)")],
         raises={"AssertionError": ["GI1()"], "AttributeError": ["GI1()"]},
         modifies=["star('dv:Operator:OperatorState')", "star('dv:OperatorState:int')"] +
                  [f"(c.{f} for c in every('Container') if c.pool is self)" for f in
                   ("_current_memory", "_completed", "error", "_can_suspend", "_current_op_idx", "_ticks_elapsed",
                    "suspend_ticks", "_suspend_ticks_left")] + [
                   "contents(self.active_containers)", "contents(self.suspending_containers)", "contents(self.suspended_containers)",
                   "contents(self.container_tick_times)",
                   "self.avail_cpu_pool", "self.avail_ram_pool", "self.consumed_ram_gb", "self.num_completed", "self.i",
                   "glob('Container.next_container_num')"],
         allocates=True,
         locals={"results": List(Ref("ExecutionResult")), "to_remove": List(Ref("Container"))},
         loops={
             0: dict(idx="k", header="for s in suspensions",
                     inv=CTX + ["Conserved(self)", ACT, ACT_LIVE, SUS, USAGE, ALIVE0, "BatchOK(self, seq(assignments))",
                                "all(c in at_entry(seq(self.active_containers)) for c in self.active_containers)"]),
             1: dict(idx="k", header="for a in assignments",
                     inv=CTX + [ACT, ACT_LIVE, SUS, USAGE, ALIVE0, "k <= len(assignments)",
                                "BatchOK(self, drop(assignments, k))",
                                STARTED.format(seq="take(assignments, k)", res="results"), "len(results) == 0",
                                "Conserved(self)",
                                "self.avail_cpu_pool == at_entry(self.avail_cpu_pool) - Sum(take(assignments, k), 'cpuA')",
                                "self.avail_ram_pool == at_entry(self.avail_ram_pool) - Sum(take(assignments, k), 'ramA')"]),
             2: dict(idx="k", header="for c in self.suspending_containers",
                     inv=CTX + [ACT, ACT_LIVE, USAGE, ALIVE0, "k <= len(self.suspending_containers)",
                                STARTED.format(seq="seq(assignments)", res="results"), "len(results) == 0",
                                "nodup(to_remove) and all(c in self.suspending_containers and idx(seq(self.suspending_containers), c) < k for c in to_remove)",
                                "all(implies(j < k, iff(self.suspending_containers[j]._suspend_ticks_left == 0, self.suspending_containers[j] in to_remove))"
                                " for j in range(0, len(self.suspending_containers)))",
                                "all(implies(c not in to_remove, SuspOK(self, c)) for c in self.suspending_containers)",
                                "all(c.pool is self and CWF(c) and c.assignment.ram > 0 and c._current_memory == 0 and not c._completed"
                                " and all(state(op) == OperatorState.PENDING for op in rest(c)) for c in to_remove)",
                                "self.avail_cpu_pool + Sum(self.active_containers, 'cpuC') + Sum(self.suspending_containers, 'cpuC')"
                                " - Sum(to_remove, 'cpuC') == self.max_cpu_pool",
                                "self.avail_ram_pool + Sum(self.active_containers, 'ramC') + Sum(self.suspending_containers, 'ramC')"
                                " - Sum(to_remove, 'ramC') == self.max_ram_pool",
                                "self.avail_cpu_pool >= 0 and implies(not self.allow_memory_overcommit, self.avail_ram_pool >= 0)"]),
             3: dict(idx="k", header="for c in to_remove",
                     inv=["ListsOK(self)", "k <= len(to_remove)", "nodup(to_remove)", ALIVE0,
                          "seq(self.active_containers) == at_entry(seq(self.active_containers))",
                          "all(to_remove[j] in self.suspending_containers for j in range(k, len(to_remove)))",
                          "all(to_remove[j] not in self.suspending_containers for j in range(0, k))",
                          "all(c in at_entry(seq(self.suspending_containers)) for c in self.suspending_containers)",
                          "all(implies(c in to_remove, idx(seq(to_remove), c) >= k) for c in self.suspending_containers)",
                          "self.avail_cpu_pool + Sum(self.active_containers, 'cpuC') + Sum(self.suspending_containers, 'cpuC')"
                          " - Sum(drop(to_remove, k), 'cpuC') == self.max_cpu_pool",
                          "self.avail_ram_pool + Sum(self.active_containers, 'ramC') + Sum(self.suspending_containers, 'ramC')"
                          " - Sum(drop(to_remove, k), 'ramC') == self.max_ram_pool"]),
             4: dict(idx="k", header="for c in self.active_containers",
                     cut=CTX + [ACT, ACT_LIVE, SUS, USAGE, "Conserved(self)", NEG, "len(results) == 0", ALIVE0,
                                STARTED.format(seq="seq(assignments)", res="results")],
                     inv=CTX + [ACT0, SUS, USAGE, "len(results) == 0", ALIVE0, STARTED.format(seq="seq(assignments)", res="results"), "Conserved(self)", "k <= len(self.active_containers)",
                                "all(not self.active_containers[j]._completed for j in range(k, len(self.active_containers)))"]),
             5: dict(idx="k", header="for c in self.active_containers",
                     cut=CTX + [ACT, SUS, USAGE, "Conserved(self)", NEG, "len(results) == 0", "len(to_remove) == 0", ALIVE0,
                                STARTED.format(seq="seq(assignments)", res="results"),
                                "all(c._current_memory <= c.assignment.ram for c in self.active_containers)",
                                "self.consumed_ram_gb <= self.max_ram_pool or all(c._current_memory <= 0 for c in self.active_containers)"],
                     inv=CTX + [ACT, SUS, USAGE, "k <= len(self.active_containers)",
                                "all(c._current_memory <= c.assignment.ram for c in self.active_containers)",
                                "self.consumed_ram_gb <= self.max_ram_pool or all(c._current_memory <= 0 for c in self.active_containers)",
                                "nodup(to_remove) and all(c in self.active_containers and c._completed"
                                " and idx(seq(self.active_containers), c) < k for c in to_remove)",
                                "all(implies(j < k and self.active_containers[j]._completed, self.active_containers[j] in to_remove)"
                                " for j in range(0, len(self.active_containers)))",
                                "self.avail_cpu_pool + Sum(self.active_containers, 'cpuC') + Sum(self.suspending_containers, 'cpuC')"
                                " - Sum(to_remove, 'cpuC') == self.max_cpu_pool",
                                "self.avail_ram_pool + Sum(self.active_containers, 'ramC') + Sum(self.suspending_containers, 'ramC')"
                                " - Sum(to_remove, 'ramC') == self.max_ram_pool",
                                "self.avail_cpu_pool >= 0 and implies(not self.allow_memory_overcommit, self.avail_ram_pool >= 0)",
                                "all(c._current_memory == 0 for c in to_remove)", ALIVE0,
                                STARTED.format(seq="seq(assignments)", res="results"), RES, RES2, RES3]),
             6: dict(idx="k", header="for c in to_remove",
                     inv=["ListsOK(self)", "k <= len(to_remove)", "nodup(to_remove)",
                          "seq(self.suspending_containers) == at_entry(seq(self.suspending_containers))",
                          "all(to_remove[j] in self.active_containers for j in range(k, len(to_remove)))",
                          "all(to_remove[j] not in self.active_containers for j in range(0, k))",
                          "all(c in at_entry(seq(self.active_containers)) for c in self.active_containers)",
                          "all(implies(c not in to_remove, c in self.active_containers) for c in at_entry(seq(self.active_containers)))",
                          "Sum(self.active_containers, 'Container._current_memory') == at_entry(Sum(self.active_containers, 'Container._current_memory'))",
                          "seq(results) == at_entry(seq(results))",
                          "self.avail_cpu_pool + Sum(self.active_containers, 'cpuC') + Sum(self.suspending_containers, 'cpuC')"
                          " - Sum(drop(to_remove, k), 'cpuC') == self.max_cpu_pool",
                          "self.avail_ram_pool + Sum(self.active_containers, 'ramC') + Sum(self.suspending_containers, 'ramC')"
                          " - Sum(drop(to_remove, k), 'ramC') == self.max_ram_pool"]),
         })


def declare4(S: Spec):
    S.fn(f"{MR}:ResourcePool.__init__", owners=["C03", "C04"],
         params={"pool_id": INT, "cpu_pool": REAL, "ram_pool": REAL, "ticks_per_second": INT,
                 "multi_operator_containers": BOOL, "allow_memory_overcommit": BOOL},
         requires=["cpu_pool >= 0 and ram_pool >= 0 and ticks_per_second >= 1", "GI1()"],
         ensures=[("fields", "self.pool_id == pool_id and self.max_cpu_pool == cpu_pool and self.max_ram_pool == ram_pool"
                             " and self.ticks_per_second == ticks_per_second and self.allow_memory_overcommit == allow_memory_overcommit"
                             " and self.multi_operator_containers == multi_operator_containers"),
                  ("starts-empty", "len(self.active_containers) == 0 and len(self.suspending_containers) == 0 and len(self.suspended_containers) == 0"
                                   " and self.num_completed == 0 and len(self.container_tick_times) == 0"),
                  ("C03| conserved-initially", "Conserved(self) and self.avail_cpu_pool == cpu_pool and self.avail_ram_pool == ram_pool"),
                  ("C04| no-usage-initially", "self.consumed_ram_gb == 0"),
                  ("invariant-established", "PoolInv(self) and IdsOK(seq(self.active_containers))")],
         modifies=[], allocates=True)

    # the executor only routes: its clauses are about which pool a command reaches; what a pool does with its
    # commands is ResourcePool.run_one_tick's contract (treated as 'may do anything' in this proof)
    S.fn(f"{ME}:Executor.run_one_tick", owners=["C09", "C08"],
         params={"suspensions": List(Ref("Suspend")), "assignments": List(Ref("Assignment"))},
         returns=List(Ref("ExecutionResult")),
         requires=["suspensions is not None and assignments is not None", "self.pools is not None and self.num_pools == len(self.pools)"],
         ensures=[("no-command-dropped", "all(0 <= a.pool_id and a.pool_id < self.num_pools for a in old(seq(assignments)))"
                                         " and all(0 <= s.pool_id and s.pool_id < self.num_pools for s in old(seq(suspensions)))")],
         raises={"AssertionError": [], "Exception": []},
         modifies=["star('*')"],
         native_ensures=[("every-pool-is-ticked-exactly-once",
                          "C09,C10| all(p.i == old(p.i) + 1 for p in self.pools)")],
         weak_calls=[f"{MR}:ResourcePool.run_one_tick"],
         locals={"results": List(Ref("ExecutionResult"))},
         loops={0: dict(idx="k", header="for s in suspensions",
                        inv=["all(0 <= suspensions[j].pool_id and suspensions[j].pool_id < self.num_pools for j in range(0, k))"]),
                1: dict(idx="k", header="for a in assignments",
                        inv=["all(0 <= assignments[j].pool_id and assignments[j].pool_id < self.num_pools for j in range(0, k))"]),
                2: dict(idx="k", header="for id_ in range(self.num_pools)", inv=[])})

#!/bin/bash
# usage: tools_seed_all.sh [ids...] : apply every seeded change to /repo in turn, run the check of its property (quick tier), undo it;
# writes seeded/RESULTS.tsv (id, rc, deciding parts).  /repo must be clean before and is left clean.
cd /verif
EVBAK=$(mktemp -d); cp -r /verif/evidence/. $EVBAK/   # evidence files describe the unchanged tree: runs on patched trees must not replace them
trap 'cp -r $EVBAK/. /verif/evidence/; rm -rf $EVBAK' EXIT
ids="$@"; [ -z "$ids" ] && ids=$(ls seeded | grep -E '^C[0-9]+-[0-9]+$' | sort -V)
[ -n "$(git -C /repo status --short)" ] && { echo "/repo not clean"; exit 9; }
for id in $ids; do
  p=${id%%-*}
  git -C /repo apply /verif/seeded/$id/patch.diff || { echo -e "$id\tAPPLY-FAILED"; continue; }
  t0=$(date +%s)
  out=$(./check $p --tier quick 2>&1); rc=$?
  git -C /repo checkout -- .
  failed=$(echo "$out" | grep -E "^  FAILED" | sed -E 's/^  FAILED ([^ ]+) \[([a-z]+)\].*/\1[\2]/' | head -4 | tr '\n' ' ')
  tail=$(echo "$out" | grep -E "VIOLATION|UNDECIDED|CHECKER-ERROR" | head -1 | sed -E 's/replay=[^ ]+//' | cut -c1-90)
  echo -e "$id\trc=$rc\t$(( $(date +%s) - t0 ))s\t$tail\t$failed"
done

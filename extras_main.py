import sys, os
sys.path.insert(0, os.path.dirname(os.path.abspath(__file__)))
import extras
extras._main()

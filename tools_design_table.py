"""regenerates section 7 of DESIGN.md (seeded-change table) from seeded/RESULTS.tsv and the notes of each seeded change"""
import json, os, re, sys
HERE = os.path.dirname(os.path.abspath(__file__))
rows = {}
for line in open(os.path.join(HERE, "seeded", "RESULTS.tsv")):
    parts = line.rstrip("\n").split("\t")
    if len(parts) >= 2 and re.match(r"C\d+-\d+$", parts[0]):
        rows[parts[0]] = parts
out = ["__N__ changes written by independent sub-agents in five batches (each given only the property text and a scratch worktree), each confirmed by me before",
       "it was kept: the patch applies, the package imports, the 51 baseline tests pass with it, its demonstration fails with it and passes",
       "without it (`seeded/<id>/meta.json`). `tools_seed_all.sh` applies each to `/repo`, runs the check of its property (quick tier, seed 0)",
       "and undoes it; the table is generated from `seeded/RESULTS.tsv` by `tools_design_table.py`. *deductive* = a named obligation of the",
       "property failed; *witness* = a failing input was found on the real code (monitor scenario or bounded part); `no-failing-input-found`",
       "as printed by the check. Rows date from the last run of that change: all changes of C12-C16, C19 and C20 and a cross-section of",
       "11 changes over the other properties (one each) were re-run after the last engine change (section 2.7, silent conversions); the",
       "remaining rows were produced earlier the same day by an engine that differed only in those conversions, with the same contracts.", "",
       "| id | what the change does (from the sub-agent's note) | verdict | what caught it |", "|----|---|---|---|"]
def short(s, n):
    s = " ".join(s.split())
    return s if len(s) <= n else s[: n - 1] + "…"
ids = sorted([d for d in os.listdir(os.path.join(HERE, "seeded")) if re.match(r"C\d+-\d+$", d)], key=lambda x: (int(x[1:3]), int(x.split("-")[1])))
missed = []
for i in ids:
    note = open(os.path.join(HERE, "seeded", i, "note.txt")).read() if os.path.exists(os.path.join(HERE, "seeded", i, "note.txt")) else ""
    note = re.sub(r"^Change \d+\s*[:(]?", "", note.strip())
    r = rows.get(i)
    if not r:
        out.append(f"| {i} | {short(note, 150)} | not run | |"); continue
    rc = r[1]
    caught = r[4] if len(r) > 4 else ""
    tail = r[3] if len(r) > 3 else ""
    names = [c for c in caught.split() if "[" in c]
    kinds = []
    if any(not n.startswith("bounded:") and not n.startswith("scan:") for n in names):
        kinds.append("deductive")
    if any(n.startswith("bounded:") for n in names) or "on the real code" in caught:
        kinds.append("witness")
    if any(n.startswith("scan:") for n in names):
        kinds.append("scan")
    verdict = "VIOLATION" if rc == "rc=1" else ("**missed**" if rc == "rc=0" else rc)
    if "no-failing-input-found" in tail:
        verdict += " (no-failing-input-found)"
    if rc != "rc=1":
        missed.append(i)
    what = ", ".join(short(n, 90) for n in names[:3]) or short(caught, 160)
    out.append(f"| {i} | {short(note, 150)} | {verdict} | {'/'.join(kinds) or '-'}: {what} |")
out += ["", f"Caught: {len([i for i in ids if rows.get(i) and rows[i][1] == 'rc=1'])} of {len(ids)}." + (f" Missed: {', '.join(missed)} (discussed below)." if missed else "")]
misses_md = os.path.join(HERE, "seeded", "MISSES.md")
if os.path.exists(misses_md):
    out += ["", open(misses_md).read().rstrip()]
text = "\n".join(out).replace("__N__", str(len(ids)))
p = os.path.join(HERE, "DESIGN.md")
s = open(p).read()
a = s.index("## 7. Seeded changes")
b = s.index("## 8. False alarms")
s = s[:a] + "## 7. Seeded changes\n\n" + text + "\n\n" + s[b:]
open(p, "w").write(s)
print(text[-400:])

# ---- obligation counts of the summary table (section 0) from the evidence files -------------------------------------
import glob
s = open(p).read()
for f in sorted(glob.glob(os.path.join(HERE, "evidence", "C*.json"))):
    e = json.load(open(f))
    pid, n = e["property_id"], e["coverage"]["obligations"]
    lines = s.split("\n")
    for k, ln in enumerate(lines):
        if ln.startswith(f"| {pid} |"):
            cols = ln.split("|")
            c3 = cols[3]
            if re.search(r"\((\d+)(, reals)?\)", c3):
                c3 = re.sub(r"\((\d+)(, reals)?\)", lambda m: f"({n}{m.group(2) or ''})", c3, count=1)
            else:
                c3 = c3.rstrip() + f" ({n}) "
            cols[3] = c3
            lines[k] = "|".join(cols)
    s = "\n".join(lines)
s = re.sub(r"\d+ property-breaking changes written by independent sub-agents", f"{len(ids)} property-breaking changes written by independent sub-agents", s)
open(p, "w").write(s)

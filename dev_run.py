import sys, time, logging
sys.path.insert(0, "/verif/.deps"); sys.path.insert(0, "/verif")
logging.disable(logging.CRITICAL)
from pyvc.program import Program
from pyvc.spec import Spec
from pyvc.engine import Engine
from pyvc import verify, solve
import importlib

def run(mods, fns, repo="/repo", verbose=True):
    prog = Program(repo)
    for m in mods:
        mm = importlib.import_module("contracts." + m)
        if hasattr(mm, "prepare"): print("extracted:", mm.prepare(prog))
    S = Spec()
    from contracts import schema
    schema.declare(S)
    for m in mods:
        mod = importlib.import_module("contracts." + m); mod.declare(S)
        if hasattr(mod, "declare2"): mod.declare2(S)
        if hasattr(mod, "declare3"): mod.declare3(S)
        if hasattr(mod, "declare4"): mod.declare4(S)
    E = Engine(prog, S)
    for q in fns:
        qq = [k for k in S.fns if k.endswith("." + q) or k.endswith(":" + q)]
        assert len(qq) == 1, (q, qq)
        info = verify.verify_function(E, qq[0])
        print(info)
    import os, re
    if os.environ.get("PYVC_ONLY"):
        rx = re.compile(os.environ["PYVC_ONLY"])
        E.all_obligations = list(E.obligations); E.obligations = [o for o in E.obligations if rx.search(o.name)]
    t0 = time.time()
    fast = bool(os.environ.get("PYVC_FAST"))
    res = solve.discharge(E, E.obligations, jobs=16, timeout_ms=int(os.environ.get("PYVC_TIMEOUT", "10000")), use_cvc5=not fast, model_phase=not fast)
    print(f"solve {time.time()-t0:.1f}s, {len(E.obligations)} instances")
    bad = 0
    for r in res:
        if r.status != "discharged" or verbose or r.time > 2.5:
            print(f"  {r.status:11s} {r.name}  [{','.join(sorted(r.backends))}] {r.time:.2f}s x{r.instances}  {r.reason[:100] if r.status!='discharged' else ''}")
        if r.status != "discharged":
            bad += 1
            if r.model: print("     model:", r.model[:1500].replace("\n", " "))
    print("BAD", bad)
    return E, res

if __name__ == "__main__":
    mods = sys.argv[1].split(",")
    run(mods, sys.argv[2:])

def dump(E, name, path="/tmp/ob.smt2", idx=0):
    from pyvc import prelude
    obs = [o for o in E.obligations if o.name.endswith(name)]
    ob = obs[idx]
    t = solve.to_smt2(prelude.all_axioms() + list(E.extra_axioms), ob.pc, ob.goal)
    open(path, "w").write(t)
    return ob


def flatten_and(e):
    import z3
    if z3.is_and(e):
        out = []
        for c in e.children():
            out.extend(flatten_and(c))
        return out
    return [e]


def split(E, name, idx=0, timeout=8000):
    """debug: which conjunct of a (quantified) goal is not provable?"""
    import z3
    from pyvc import prelude, arith
    obs = [o for o in E.obligations if o.name.endswith(name)]
    ob = obs[idx]
    axioms = prelude.all_axioms() + list(E.extra_axioms) + (arith.axioms(E) if ('rmul' in E.uf or 'rdiv' in E.uf) else [])
    goal = ob.goal
    pre = []
    if z3.is_quantifier(goal) and goal.is_forall():
        vs = [z3.Const(goal.var_name(i) + "_sk", goal.var_sort(i)) for i in range(goal.num_vars())]
        body = z3.substitute_vars(goal.body(), *reversed(vs))
        if z3.is_implies(body):
            pre.append(body.arg(0)); body = body.arg(1)
        goal = body
    for i, cj in enumerate(flatten_and(goal)):
        s = z3.Solver(); s.set("auto_config", False); s.set("mbqi", False); s.set("case_split", 3); s.set("timeout", timeout)
        for a in axioms: s.add(a)
        for p in ob.pc: s.add(p)
        for p in pre: s.add(p)
        s.add(z3.Not(cj))
        r = s.check()
        print(i, r, str(cj)[:300].replace("\n", " "))
